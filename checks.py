# property id -> parts (harness binaries) run by ./check
CHECKS = {
    "selftest": {
        "rule": "engine self-checks: toy programs with a known verdict",
        "parts": [{"bin": "selftest"}],
    },
    "C17": {
        "registered": True,
        "engine": "pmc-os",
        "technique": "stateless preemption-bounded exhaustive schedule enumeration of the real containers (controlled scheduler over hooked atomics) + exhaustive sequential op histories vs reference model",
        "level_text": "Every interleaving of the containers' atomic steps within the stated deviation bound (all interleavings for the 2x2 index-queue programs), for every initial content and every op word of the small alphabet, is executed on the real code and checked for exactly-once delivery, no invention, successful quiescent pops and per-end order. Bounded-exhaustive, not sampled.",
        "level_note": "Sequentially consistent interleavings only (weak-memory reorderings are not modelled); compare_exchange_weak never fails spuriously; choice points at the atomics of the container sources (F-site) and the watched queue object; bounds per spec are in the evidence.",
        "rule": "pmc-os: initial contents x op words (data choices) x all schedules of the container's atomic steps within the deviation bound; sequential histories against a reference container",
        "parts": [{"bin": "C17_index_queue"}, {"bin": "C17_deque"}],
    },
}

PENDING = {}
