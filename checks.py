# property id -> parts (harness binaries) run by ./check
CHECKS = {
    "selftest": {
        "rule": "engine self-checks: toy programs with a known verdict",
        "parts": [{"bin": "selftest"}],
    },
    "C17": {
        "registered": True,
        "engine": "pmc-os",
        "technique": "stateless preemption-bounded exhaustive schedule enumeration of the real containers (controlled scheduler over hooked atomics) + exhaustive sequential op histories vs reference model",
        "level_text": "Every interleaving of the containers' atomic steps within the stated deviation bound (all interleavings for the 2x2 index-queue programs), for every initial content and every op word of the small alphabet, is executed on the real code and checked for exactly-once delivery, no invention, successful quiescent pops and per-end order. Bounded-exhaustive, not sampled. Also: single-threaded phase histories with sizes across the block (32) and block-index (1024) boundaries of the FIFO back-end for all four back-ends; three consumers racing for fewer elements (3 deviations, focus on the dequeue path); producer threads that come and go (20 OS threads: growth of the producer hash, thread exit, sub-queue recycling, thread-id re-use) with two overlapping pushes at the end. Two producer threads whose ids collide in the FIFO back-end's 32-slot producer hash (found among 20 candidates), the displaced one exits, its id is re-used while another new thread is handed the recycled sub-queue, both pushing at once (2 deviations).",
        "level_note": "Sequentially consistent interleavings only (weak-memory reorderings are not modelled); compare_exchange_weak never fails spuriously; choice points at the atomics of the container sources (F-site) and the watched queue object; bounds per spec are in the evidence. ConcurrentQueue's thread-exit recycling (MOODYCAMEL_CPP11_THREAD_LOCAL_SUPPORTED) is switched on explicitly in the instrumented library and all harnesses: the header enables it for g++ (the compiler of /repo's build) but not for the clang that compiles the instrumented code (clang reports __GNUC__ 4.2).",
        "rule": "pmc-os: initial contents x op words (data choices) x all schedules of the container's atomic steps within the deviation bound; sequential histories against a reference container",
        "parts": [{"bin": "C17_index_queue"}, {"bin": "C17_deque"}],
    },
}

CHECKS["C06"] = {
    "registered": True,
    "engine": "pmc-rt",
    "technique": "stateless preemption-bounded exhaustive schedule enumeration of pika tasks on a live 2-worker runtime (controlled scheduler over hooked atomics + interposed pthreads, virtual clock)",
    "level_text": "Every schedule within the deviation bound (preemptions at the atomics of the mutex object and the task state words, early timeouts) of every small lock/try_lock/timed/recursive/misuse program is executed on the real runtime; occupancy, critical-section visibility, hand-off (no stuck waiter), try-result truthfulness and error reporting are checked in each execution. Critical sections contain a scheduling point; recursive spin mutex explored at 2 deviations. The spinlocks also from plain OS threads (3 threads x 1 section, 2 x 2; 4 deviations): hand-over after a release with several contenders. Recursive mutex nested to depths at the boundaries of 8- and 16-bit counters (input enumeration): the other task's try_lock fails until the last unlock.",
    "level_note": "Sequentially consistent interleavings only; 2 workers, 2-3 tasks, 1-2 critical sections each; choice points at atomics on the watched mutex and task thread_data (unwatched runtime internals run in canonical order); bounds per spec in the evidence.",
    "rule": "pmc-rt: task programs over {lock, try_lock, lock+yield, relock, try_lock_for/until, re-entrant lock} (data choices) x all schedules within the deviation bound",
    "parts": [{"bin": "C06_mutex"}],
}

CHECKS["C08"] = {
    "registered": True,
    "engine": "pmc-rt",
    "technique": "stateless deviation-bounded (preemptions + early timeouts) exhaustive schedule enumeration of semaphore programs on a live 2-worker runtime and on plain OS threads; sequential histories vs reference counter",
    "level_text": "Every schedule within the deviation bound of every small acquire/try_acquire/release/timed-acquire program (all initial counts 0..2, programs that cannot terminate skipped), and of sliding-semaphore wait/try_wait/signal programs, is executed on the real code; a permit ledger, the final count, blocked-acquirer liveness (stuck detector) and the truthfulness of try/timed results are checked in each execution. Further programs: two blocked acquirers and two releases (back to back / release(2) / two releasers), timed acquires with two different time-outs, sliding semaphore reconfigured (set_max_difference) while a task is blocked. Sliding semaphore with distances and limits up to INT64_MAX (grid against a 128-bit oracle) and a waiter blocked with upper limit INT64_MAX.",
    "level_note": "Sequentially consistent interleavings only; 2 workers, 2-3 tasks; the virtual clock only lets a deadline pass as an explorer deviation or when nothing else can run; choice points at atomics on the semaphore object and task state words.",
    "rule": "pmc-rt/pmc-os: initial count x op words (data choices) x all schedules within the deviation bound; sequential histories depth<=4",
    "parts": [{"bin": "C08_semaphore"}],
}

CHECKS["C07"] = {
    "registered": True,
    "engine": "pmc-rt",
    "technique": "stateless deviation-bounded (preemptions + early timeouts) exhaustive schedule enumeration of waiter/notifier programs on a live 2-worker runtime and on plain OS threads",
    "level_text": "Every schedule within the deviation bound of every waiter-form x notifier-form program (wait loop, wait(pred), wait_for(pred), wait_until loop, stop-token wait; notify_all/notify_one, inside/outside the user lock) is executed on the real code; lost notifications show up as a stuck execution, and lock ownership on return, predicate values, timeout reports and stop-token returns are asserted in each execution. Further programs: one notify_one for an untimed and a timed (predicate-less) waiter; a stop-token wait queued behind another waiter of the same condition variable. A waiter that leaves wait() through an interruption while another waiter is queued: the following notify_one belongs to the remaining waiter (condition_variable and condition_variable_any, either queue order).",
    "level_note": "Sequentially consistent interleavings only; 2 workers, 1-2 waiters, 1 notifier; timed waits are pika's yield-until-deadline loops driven by the virtual clock (expiry before/after the notification is an explorer deviation); timed forms on plain OS threads are not exercised (pika implements them with a plain sleep).",
    "rule": "pmc-rt/pmc-os: waiter forms x notifier forms (data choices) x all schedules within the deviation bound",
    "parts": [{"bin": "C07_condvar"}],
}

CHECKS["C02"] = {
    "registered": True,
    "engine": "pmc-rt",
    "technique": "stateless preemption-bounded exhaustive schedule enumeration of suspend/wake-up programs on a live 2-worker runtime; quiescence-with-suspended-task (stuck) detector as oracle",
    "level_text": "Every schedule within the deviation bound of suspender/waker programs (waker = task on the other worker or external non-pika thread, optional busy task, one or two waiters, cv and mutex facilities) is executed on the real runtime; a quiescent runtime with an issued wake-up and a task that did not run again is reported, with the pool's thread counts. Further programs: two wake-ups with different restart states (notify_one + interrupt), a notified timed wait (the pending_boost path); thread::interrupt (the non-retrying form of set_thread_state) as the only wake-up. A waiter on a plain OS thread (default agent: std::mutex and condition variables), its agent watched so that timed waits inside it are deadlines the explorer may let pass right where they block.",
    "level_note": "Sequentially consistent interleavings only; 2 workers; choice points at the waiter state words, the internal lock/condition variable and at the atomics of set_thread_state, set_active_state, do_yield/do_resume, create_work and switch_status (F-site); fairness is the spin detector of the scheduler. The Promela layer sketched in DESIGN.md was not built.",
    "rule": "pmc-rt: suspender / waker / helper-task programs x all schedules within the deviation bound",
    "parts": [{"bin": "C02_wakeup"}],
}

CHECKS["C09"] = {
    "registered": True,
    "engine": "pmc-rt + spin",
    "technique": "stateless preemption-bounded exhaustive schedule enumeration of latch / barrier / event / call_once programs on a live 2-worker runtime and on plain OS threads; plus explicit-state model checking (Spin) of a Promela model of pika::barrier that is bound to the code by comparing the complete sets of event histories of model and implementation",
    "level_text": "Every schedule within the deviation bound of every small participant program (latch arrive/wait mixes, barrier phases with arrive_and_wait / arrive+wait / arrive_and_drop and a counting completion function, event waiters incl. a late one, call_once with a throwing first attempt) is executed on the real code; departures are checked against arrival counts and completion counts, body counters against 1, and blocked waiters whose release condition holds show up as stuck executions. The barrier's completion function has a duration (scheduling point inside): nobody may be released while it runs.",
    "level_note": "Sequentially consistent interleavings only; 2 workers; 2-3 participants; 2 barrier phases; choice points at atomics on the primitive and the task state words; polling loops (barrier spin wait) stop opening choice points after three identical iterations. Secondary layer: models/barrier.pml (one transition per atomic operation of barrier.hpp / barrier.cpp) is verified by Spin for up to 4 (thorough 5) participants, 3 phases, arrive_and_drop, arbitrary start nodes and phase-byte wrap-around; its event histories are compared with those of the real barrier (equal sets for the n=2 configurations explored completely, implementation subset of model for n=3 within the bound); on a mismatch the model layer is dropped and says so.",
    "rule": "pmc-rt/pmc-os: participant op mixes (data choices) x all schedules within the deviation bound; spin: all reachable states of the barrier model for the listed parameters + history-set comparison with the implementation",
    "parts": [{"bin": "C09_latch_barrier"}, {"bin": "C09_barrier_conf", "kind": "buildonly"}, {"bin": "harness/c09_barrier_model.py", "kind": "script", "part": "barrier-model"}],
}

CHECKS["C14"] = {
    "registered": True,
    "engine": "seqx + pmc-os + pmc-rt",
    "technique": "BFS over sequential copy/move/assign/register histories vs a reference stop-state model (de-duplicated on the model state, every transition replayed on the real objects) + stateless preemption-bounded exhaustive schedule enumeration of racing request_stop / register / destroy programs",
    "level_text": "All operation histories to depth 5 (6 thorough) over 2 sources, 2 tokens and 2 callbacks are executed on the real classes, on a plain thread and inside a pika task, and compared step by step with a reference model (stop_possible, stop_requested, request_stop results, callback run counts; a history that does not return is a reported hang). Racing request_stop callers, registration vs request_stop, destruction vs a running callback and self-deregistration are explored over every schedule within the deviation bound on OS threads and on pika tasks. Also: token queries (stop_possible / stop_requested) racing with callback registration and deregistration, with and without a remaining stop_source. A callback that is resumed on another worker (its worker kept busy by another task) and then destroys itself. History alphabet also: token swap and move assignment, source move construction, stop_source(nostopstate), callback constructed from an rvalue token.",
    "level_note": "Sequentially consistent interleavings only; 2-3 racing threads/tasks; callbacks contain two harness scheduling points so that the 'is executing' window is wide; histories are bounded by depth, not by the number of objects (2 of each).",
    "rule": "seqx: BFS histories depth<=5/6; pmc: race programs x all schedules within the deviation bound",
    "parts": [{"bin": "C14_stop_seq", "part": "seq"}, {"bin": "C14_stop_race", "part": "race"}],
}

CHECKS["C13"] = {
    "registered": True,
    "engine": "pmc-rt",
    "technique": "stateless preemption-bounded exhaustive schedule enumeration of create/join/detach/interrupt/jthread programs on a live 2-worker runtime",
    "level_text": "Every schedule within the deviation bound of thread programs (target bodies: return, yield twice, wait for a flag, spawn and join a child; joiner: creator or another task; detach, double join, self join; jthread destructor; interrupt with a disabled window and a sibling) is executed on the real runtime; body_done at join return, joinable(), the documented error codes, the phase in which an interruption is observed and an unaffected sibling are asserted; a join that never returns shows up as a stuck execution. Also: an interruption request refused while the blocked target has interruption disabled; nested disable_interruption guards. A thread that registers an exit callback for itself while it is joined (2 deviations); jthread handle operations (swap, move onto an empty handle) followed by destruction: the stop request goes to the thread the destroyed handle represents.",
    "level_note": "Sequentially consistent interleavings only; 2 workers; choice points at creator/joiner state words, the whole thread_data of the target and the atomics of exit-callback registration/run, thread::join, set_thread_state, interrupt_thread and stop_state (F-site).",
    "rule": "pmc-rt: thread bodies x joiners (data choices) x all schedules within the deviation bound",
    "parts": [{"bin": "C13_thread_join"}],
}

CHECKS["C01"] = {
    "registered": True,
    "engine": "pmc-rt",
    "technique": "stateless preemption-bounded exhaustive schedule enumeration of task trees on a live runtime (1-2 workers, all 8 scheduling policies) with an entry/exit ledger and a single-runner monitor",
    "level_text": "Every schedule within the deviation bound of task-tree programs (root submitted from a non-pika thread, 2-3 children created by execute() or as detached pika::thread, two phases each from work / yield / boosted yield / suspend-until-event, two priorities) is executed on the real runtime under each of the 8 scheduling policies; each body must be entered and left exactly once, never be active on two workers, and a quiescent runtime with an unfinished task is reported as a dropped task. Further programs: thread objects recycled after an undelivered interruption request, two external resumers racing for one suspended task, more blocked tasks than the queue's thread map holds (staged tasks beyond max_thread_count). More busy-waiting tasks than workers (4 pika::threads polling with yield_while on 2 workers; default schedule): every one must be entered - reported as an open known finding.",
    "level_note": "Sequentially consistent interleavings only; workers 1-2 (statement: 1..16); busy/idle loop limits set to 4 so that the direct-switch and idle paths occur within a few phases; quick tier: choice points at task state words and the rmw/cas sites of thread_data state transitions, set_thread_state and scheduling_loop; thorough tier adds whole thread_data and all queue bookkeeping sites for the default policy.",
    "rule": "pmc-rt: task trees (data choices) x 8 policies x workers {1,2} x all schedules within the deviation bound",
    "parts": [{"bin": "C01_tasks"}],
}

CHECKS["C05"] = {
    "registered": True,
    "engine": "pmc-rt",
    "technique": "stateless preemption-bounded exhaustive schedule enumeration of runtime life-cycle histories (start/submit/wait/finalize/stop/restart/suspend/resume, external submitter) on the real runtime with a completion ledger read right after each call returns",
    "level_text": "Every schedule within the deviation bound of the life-cycle histories is executed on the real runtime: wait() and stop() must not return before every task submitted earlier (and every task those spawn) has finished, stop() must not return before finalize() and must return the entry function's result, a second incarnation with a different worker count and policy runs its own work completely, no body runs between suspend() returning and resume(), and work queued in that window completes after resume; calls that never return are stuck executions. Further histories: five restarts in a row, stop() entered while an entry function has returned non-zero without finalizing, resume(); suspend() back to back before work is queued. pika::wait() with the local and static queue policies (their own create_thread accounting). An entry function that calls finalize() first and keeps working before it returns its (non-zero) result.",
    "level_note": "Sequentially consistent interleavings only; 1-2 workers, 4 policies; choice points at store/rmw/cas sites of the activity counter, thread_manager, scheduled_thread_pool, scheduler_base suspend/resume, runtime wait/stop/finalize and create/destroy_thread (F-site); all pthread blocking points are scheduling decisions.",
    "rule": "pmc-rt: life-cycle histories x policies (data choices) x all schedules within the deviation bound",
    "parts": [{"bin": "C05_lifecycle"}],
}

CHECKS["C04"] = {
    "registered": True,
    "engine": "pmc-os",
    "technique": "stateless preemption-bounded exhaustive schedule enumeration of async_rw_mutex request words with two starting threads on the real header-only code; grant log checked against request order",
    "level_text": "Every schedule within the deviation bound of every request word over {read, readwrite} up to length 3 (4 thorough), with every assignment of the accesses to two starting threads or 'dropped unstarted', with and without destroying the mutex right after the requests and with copied read wrappers, is executed on the real code; at every grant the log is checked for overlap, request order, the version seen; every started access must be granted exactly once (stuck otherwise) and the wrapped value must die exactly once, after the last wrapper. Consumption modes: start_detached, manual connect/start with the operation states kept alive to the end, wrapper dropped inside the continuation which then waits for the next access; never-started accesses as dropped sender or as connected operation state destroyed unstarted; the void specialisation with the same programs.",
    "level_note": "Sequentially consistent interleavings only; 2 starting threads; choice points at all atomics of async_rw_mutex.hpp, the shared_ptr control blocks and start_detached (F-site); the non-void specialisation.",
    "rule": "pmc-os: request words x roles x options (data choices) x all schedules within the deviation bound",
    "parts": [{"bin": "C04_async_rw_mutex"}],
}

CHECKS["C03"] = {
    "registered": True,
    "engine": "pmc-os",
    "technique": "stateless preemption-bounded exhaustive schedule enumeration of sender pipelines with instrumented leaves (value/error/stopped, inline or deferred), a manual scheduler, recording receivers and payload/allocation ledgers on the real header-only adaptors",
    "level_text": "Every schedule within the deviation bound of every pipeline of the curated set (then, let_value, let_error, when_all, when_all_vector, split, split_tuple, ensure_started, continues_on, schedule, transfer_just, start_detached, sync_wait, drop_value, drop_operation_state, require_started, unpack, unique_any_sender and depth-2 combinations), for every completion channel at every leaf and inline or deferred completion, with one or two consumers on different threads, is executed on the real code; each receiver must get exactly one signal on the denoted channel with the denoted payload, never after its operation state was destroyed; payload objects and heap blocks must be released exactly once (quarantined, poisoned blocks detect use after free). Values whose copy constructor fails (copy fuse: the k-th copy after start throws) handed by reference through any_sender / unique_any_sender(split(..)): exactly one completion, the error.",
    "level_note": "Sequentially consistent interleavings only; the quick tier uses terms of depth 1-2 from a curated list; the thorough tier adds the generated closure of depth 1-2 over 12 unary adaptors (153 terms, expected completion from a reference interpreter; split | let_error does not compile with pika and is excluded); bulk is covered by C11 and the thread pool scheduler by C10; choice points at all atomics of the adaptor headers, any_sender and reference counts (F-site) plus harness points at leaf registration / firing / after start.",
    "rule": "pmc-os: pipelines x leaf channels x timing x consumer placement (data choices) x all schedules within the deviation bound",
    "parts": [{"bin": "C03_senders"}, {"bin": "C03_terms", "part": "generated-terms", "tiers": ["thorough"]}],
}

CHECKS["C11"] = {
    "registered": True,
    "engine": "seqx + pmc-rt",
    "technique": "exhaustive input grid (every n up to a bound x worker counts x shape types x throwing sets) through the real bulk on a live runtime + real chunking arithmetic at type boundaries with a hang watchdog + stateless preemption-bounded schedule enumeration of the chunk-stealing workers",
    "level_text": "Grid: every n in [0,300] (2048 thorough) x workers {1,2,3,4,16} x 7 integral shape types x throwing sets is run through the real thread-pool bulk with per-index counters; chunking arithmetic: the real get_chunk_size at 2^k-1, 2^k, 2^k+1 and max(Shape) for 5 shape types x 7 thread counts must return, tile [0,n) and produce a chunk count that fits init_queue. Schedules: for n <= 4 (5 on 3 workers), every throwing set and both start contexts, every schedule of the workers popping/stealing index chunks within the deviation bound is executed; per-index call counts, unchanged values, exactly one completion after the last call (or exactly one of the thrown errors) are asserted. Values of non-trivially-movable types (string, vector, unique_ptr) for n <= 4 including n == 0. A call of f has a duration (scheduling point inside); bulk on a second pool whose workers' global numbers differ from the pool-local ones.",
    "level_note": "The grid runs on a free-running runtime (it enumerates inputs, not schedules); the very-large-n region is checked at the chunking-arithmetic level only (executing 2^32 calls is infeasible); shape types narrower than int do not compile with the pool's bulk (std::min(int, Shape)) and are therefore outside what can be executed; pmc part: sequentially consistent interleavings, 2-3 workers.",
    "rule": "seqx grid + arithmetic boundaries; pmc-rt: n x throwing sets x start context (data choices) x all schedules within the deviation bound",
    "parts": [{"bin": "C11_bulk_grid", "part": "grid"}, {"bin": "C11_bulk", "part": "schedules"}],
}

CHECKS["C10"] = {
    "registered": True,
    "engine": "pmc-rt",
    "technique": "stateless preemption-bounded exhaustive schedule enumeration of placement programs on a live runtime with two pools / static policies; every callable records pool, worker, task-ness and whether it ran inside the submitting call",
    "level_text": "Every schedule within the deviation bound of pipelines over a default(2)+aux(1) pool layout (schedule/then/continues_on, execute, transfer_just, bulk, priority and hint properties, submitted from the main thread and from a task), of a hinted normal-priority task with yields and a suspension under the static and static-priority policies (hint and waker placement enumerated) and of std_thread_scheduler work is executed on the real runtime; each callable must run as a task of the denoted pool, never inside the submitting call, every phase of the hinted task on the hinted worker, and std_thread_scheduler work on a fresh non-pika thread. Also: a hinted task on a second pool whose worker numbers differ from the global ones, bulk on a hinted scheduler, yield_to towards a task of another pool (known finding).",
    "level_note": "Sequentially consistent interleavings only; one pool layout, 2 static policies; choice points at the rmw/cas sites of set_thread_state/set_active_state, the schedulers' schedule_thread/create_thread, thread_pool_scheduler, schedule_from and scheduling_loop plus the watched state words and event.",
    "rule": "pmc-rt: placement programs (data choices) x all schedules within the deviation bound",
    "parts": [{"bin": "C10_placement"}],
}

CHECKS["C12"] = {
    "registered": True,
    "engine": "pmc-rt",
    "technique": "stateless preemption-bounded exhaustive schedule enumeration (= enumeration of migration and recycling patterns) of canary-carrying task bodies on a live 2-worker runtime",
    "level_text": "Every schedule within the deviation bound - i.e. every pattern of which worker resumes which task and in which order thread objects are recycled - of bodies that plant stack canaries at call depth, key-derived callee-saved register canaries (assembly probe around the switch), task-local data and identity, and then yield or suspend twice, for all four stack classes with 2-3 live tasks, is executed on the real runtime; after every switch everything is compared, locals must lie inside the task's own stack and stacks of live tasks must be disjoint; successors of a predecessor that leaves an unconsumed interruption request and task data behind must start clean; a separate program checks the floating-point control state. Also: thread objects recycled across stack-size classes (distinct non-default sizes for all four classes) and the stack-size class 'current' for children and grandchildren at normal and high priority. Every canary task's callable owns state whose destructor (run when the runtime destroys the thread function, still as part of the task) checks the identity, yields and checks again.",
    "level_note": "Sequentially consistent interleavings only; 2 workers; default stack sizes, default guard-page setting; stack overflow probing is not attempted; the 'program' dimension is small (two switches, depth 0 or 3) - the value of the check is the exhaustive migration x recycling product.",
    "rule": "pmc-rt: canary bodies x stack classes x switch kinds (data choices) x all schedules within the deviation bound",
    "parts": [{"bin": "C12_context"}],
}

CHECKS["C18"] = {
    "registered": True,
    "engine": "seqx",
    "technique": "BFS over wrapper operation histories de-duplicated on the reference model, every transition replayed on fresh real wrappers and compared step by step with the un-erased behaviour (differential) + lifetime ledger",
    "level_text": "All histories to depth 4 (5 thorough) over two wrapper slots - assign a small / larger-than-inline-buffer / throwing / move-only callable or empty, copy-assign (incl. self), move-assign, reset, swap, call, copy-construct a temporary - for function and unique_function, and 12 move/copy/reset/connect scripts x inline/heap stored sender x value/error/stopped for any_sender and unique_any_sender, are executed on the real wrappers; empty flags, call results (per-copy counters show copies are independent), exception kinds on empty use, and the number of live instances per payload kind after every step and at the end are compared with the un-erased reference. Sender wrappers: all histories up to depth 3 (thorough 4) over two slots x {store small/large, move-assign, copy-assign, assign empty, reset, move-construct, connect as rvalue / lvalue} x value/error/stopped; function wrappers: move construction added, all histories up to depth 3 (thorough 4) without de-duplication. any_sender assigned / constructed from a non-const lvalue sender: the original stays intact. Sender histories include storing a sender whose construction inside the wrapper throws (through operator= and reset): the wrapper must stay truthful about being empty and destroy everything once.",
    "level_note": "Sequential code only; two slots; one payload clearly below and one clearly above the inline buffer size rather than every size around the threshold.",
    "rule": "seqx: BFS histories depth<=4/5 over 2 slots; sender scripts grid",
    "parts": [{"bin": "C18_type_erasure", "part": "seq"}],
}

CHECKS["C19"] = {
    "registered": True,
    "engine": "pmc-rt",
    "technique": "stateless preemption-bounded exhaustive schedule enumeration of suspend/resume histories on a live runtime (2-worker elastic pool + control pool) with a completion ledger",
    "level_text": "Every schedule within the deviation bound of histories {submit, suspend processing unit k, submit with hint k / other hint / no hint, resume k (also back-to-back after suspend), submit; pool suspend, submit, resume; refused operations}, issued from the main thread or from a task of another pool, is executed on the real runtime; each task must run exactly once by the end, nothing may run on a suspended pool, the calls must return (stuck otherwise), refused operations must report the documented error and leave the pool running. Further histories: a task blocked on the suspended worker's queue across the suspension; pool suspension on top of individually suspended workers. Suspend and resume of the same PU issued by two OS threads without waiting for each other: both calls return.",
    "level_note": "Sequentially consistent interleavings only; 2-worker pool with local-priority-fifo + elasticity; at most 2 non-canonical successor choices at blocking points per execution in addition to the deviation bound; choice points at the per-worker state words and the store/rmw/cas sites of scheduler_base suspend/resume/select_active_pu and the pool's suspend/resume functions.",
    "rule": "pmc-rt: suspend/resume histories (data choices) x all schedules within the deviation bound",
    "parts": [{"bin": "C19_suspend_pu"}],
}

_C15_TOPOS = [("synthetic_1x2x2", "pack:1 core:2 pu:2"), ("synthetic_2x2x1", "pack:2 core:2 pu:1"), ("synthetic_1x3x2", "pack:1 core:3 pu:2"),
              ("synthetic_1x2x3", "pack:1 core:2 pu:3"), ("synthetic_2x2x2", "pack:2 core:2 pu:2"), ("synthetic_1x4x2", "pack:1 core:4 pu:2"),
              ("synthetic_2x4x1", "pack:2 core:4 pu:1"), ("synthetic_1x4x2_osnum", "pack:1 core:4 pu:2(indexes=0,4,1,5,2,6,3,7)"), ("synthetic_2x4x2", "pack:2 core:4 pu:2")]
CHECKS["C15"] = {
    "registered": True,
    "engine": "seqx",
    "technique": "exhaustive configuration grid: synthetic hwloc topologies x every process mask x binding modes x thread counts through the real affinity_data::init, plus a live grid on the real machine reading each worker's OS affinity",
    "level_text": "For 9 synthetic topologies (4 to 16 PUs, with and without SMT, 1-2 sockets, one with the interleaved OS numbering of a hyper-threaded machine so that OS and logical PU numbers differ), every non-empty process mask (16 PUs: a structured family in the quick tier, all 65535 in the thorough tier), the binding modes compact / scatter / balanced / numa-balanced / none and every thread count from 1 to |mask|+1 are pushed through the real affinity_data::init: each worker must get exactly one PU inside the mask, no two workers the same PU, the reported PU number must be the bound one, |mask|+1 threads must be rejected and 'none' must leave workers unbound. Live grid: thread counts x 4 modes x 1-2 pools on the real 16-PU machine, each worker's sched_getaffinity read from a task and compared with what pika reports; pool sizes must add up. One synthetic topology has the interleaved OS numbering of a hyper-threaded machine (process masks are OS numbers, worker masks logical; the oracle converts through hwloc itself); the live grid also compares the PU number the resource partitioner reports.",
    "level_note": "Topologies up to 16 PUs with homogeneous cores; process masks are injected through topology::set_cpubind_mask_main_thread (what --pika:process-mask does); pu_offset/pu_step left at their defaults; explicit affinity descriptions (thread:0=core:1...) are not enumerated.",
    "rule": "seqx grid over topologies x masks x modes x thread counts; live grid",
    "parts": [{"bin": "C15_affinity", "part": n, "args": ["--only", n], "env": {"HWLOC_SYNTHETIC": t, "HWLOC_THISSYSTEM": "0"}} for n, t in _C15_TOPOS]
             + [{"bin": "C15_affinity", "part": "live_grid", "args": ["--only", "live_grid"]}],
}

CHECKS["C16"] = {
    "registered": True,
    "engine": "seqx",
    "technique": "exhaustive configuration grid, one process per point: sources^settings combinations, invalid values, unknown options and non-pika arguments run through a real pika program that reports the values in effect from inside the runtime; reference resolver as oracle",
    "level_text": "For the settings worker count, scheduling policy, binding, small stack size, process mask and a free ini entry, every non-empty subset of their sources {command-line option, environment variable, PIKA_COMMANDLINE_OPTIONS, --pika:ini} with the other settings at default, every source pair for every pair of settings (thorough: triples), option-order permutations, invalid values and unknown options per source, and non-pika arguments are each run as a separate process of a probe program; the values the started runtime really uses (worker count, scheduler in use, worker affinities, stack size of a task, config entries) must be the ones the precedence denotes, invalid/unknown input must stop start-up with a message, positional arguments must arrive in order and application options as given. Settings include all four stack-size classes; sources include --pika:ini entries inside PIKA_COMMANDLINE_OPTIONS; invalid values include process masks with bits past the last PU. Case family: the higher source names exactly the built-in default while a lower source names another value.",
    "level_note": "Where the statement gives no order (environment variable vs PIKA_COMMANDLINE_OPTIONS; a dedicated option vs a generic --pika:ini entry for the same key) either candidate is accepted; application options are compared as a multiset (pika hands them to the entry function re-ordered, positional arguments keep their order); the real 16-PU machine, no synthetic topology.",
    "rule": "seqx grid, process per point",
    "parts": [{"bin": "C16_probe", "part": "probe-build", "kind": "buildonly"}, {"kind": "script", "bin": "harness/c16_grid.py", "part": "grid"}],
}

_MPI_EXTRA = "-I/usr/lib/x86_64-linux-gnu/openmpi/include -I/usr/lib/x86_64-linux-gnu/openmpi/include/openmpi -DOMPI_SKIP_MPICXX"
_MPI_LIBS = "-L/usr/lib/x86_64-linux-gnu/openmpi/lib -lmpi"
CHECKS["C20"] = {
    "registered": True,
    "engine": "pmc-rt + mock MPI",
    "technique": "stateless deviation-bounded exhaustive exploration of thread schedules and of the MPI environment's poll answers (pending/complete) on the MPI-enabled instrumented build, with MPI_Test/Testany/Testsome mocked in the harness executable",
    "level_text": "For every completion mode 0-31, with and without a dedicated polling pool, with 1-2 outstanding requests, every combination of 'still pending' answers of the mock MPI and every thread schedule within the deviation bound is executed on the real polling code; each receiver must be signalled exactly once, only after the mock reported its request complete and with the received data visible, and pika::wait() must not return while a request is in flight (a lost completion is a stuck execution). A directed 34-request program holds back the first 33 requests until the last has completed (pika tests the polling vector in chunks of 32). Further programs: a detached request with pika::wait() as the only waiter; two requests with a dedicated polling pool where MPI test calls take time (scheduling point + yields inside the mock) and requests do not complete eagerly; three requests with the plain loads and stores of the polling function's request/callback vector code as scheduling points (polling module built with memory-access instrumentation). The MPI call itself returning an error code (request left null / complete / pending): exactly one completion, an error (genuine defect, fixed). A persistent request started three times (the completed handle stays in the tested array, inactive).",
    "level_note": "MPI itself is mocked (requests are harness objects, completion is the explorer's choice); real OpenMPI progress and timing are not exercised; the MPIX continuation modes (32-39) need an MPI extension that is not installed; sequentially consistent interleavings; at most 2 non-canonical successor choices at blocking points per execution.",
    "rule": "pmc-rt: modes x requests x poll answers (data choices, pending costs a deviation) x all schedules within the deviation bound",
    "parts": [{"bin": "C20_mpi", "pika_build": "pika-mpi-mc", "extra": _MPI_EXTRA, "extralibs": _MPI_LIBS}],
}

PENDING = {}
