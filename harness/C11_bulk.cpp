// C11 (part 2, pmc-rt): bulk on the thread pool scheduler under all schedules of the chunk-stealing
// workers: once per index, values unchanged, one completion after the last call, one error if any
// call throws.
#include "rt_common.h"
#include <stdexcept>

struct Thrown { int idx; };
struct St
{
    int calls[8] = {0};
    int in_flight = 0, total = 0, bad = 0;
    int nv = 0, ne = 0, err_idx = -1, calls_at_completion = -1, inflight_at_completion = -1, value = 0;
    int finished = 0;
};
static St* g;
static void on_stuck() { pmc_fail("no-completion", "bulk never completed: %d calls made, value signals %d, error signals %d", g->total, g->nv, g->ne); }

struct Rec
{
    PIKA_STDEXEC_RECEIVER_CONCEPT
    void done() { PMC_ASSERT(g->nv + g->ne == 0, "completed-twice", "second completion signal from bulk"); g->calls_at_completion = g->total; g->inflight_at_completion = g->in_flight; pmc_progress(); }
    void set_value(int v) && noexcept { done(); g->value = v; ++g->nv; }
    void set_error(std::exception_ptr e) && noexcept
    {
        done();
        try { std::rethrow_exception(e); } catch (Thrown const& t) { g->err_idx = t.idx; } catch (...) { g->err_idx = -2; }
        ++g->ne;
    }
    void set_stopped() && noexcept { pmc_fail("unexpected-stopped", "bulk completed with stopped"); }
    constexpr rt::ex::empty_env get_env() const& noexcept { return {}; }
};

// second pool "aux" owning the first two PUs; with 4 workers its workers' global thread numbers (2, 3) differ from their pool-local ones (0, 1)
static void aux_pool(pika::resource::partitioner& rp, pika::program_options::variables_map const&)
{
    rp.create_thread_pool("aux", pika::resource::scheduling_policy::local_priority_fifo);
    int count = 0;
    for (auto const& d : rp.sockets())
        for (auto const& c : d.cores())
            for (auto const& p : c.pus())
                if (count++ < 2) rp.add_resource(p, "aux");
}

template <int W, int NMAX, int AUX = 0>
static void bulk_prog()
{
    static St s;
    s = St{};
    g = &s;
    // the second-pool variant has 5 threads and many more free choices: n in [1,NMAX], throwing sets {none, {n-1}}, started from main
    int n = AUX ? 1 + pmc_choose(NMAX, 0) : pmc_choose(NMAX + 1, 0);
    int throw_set = pmc_choose(AUX ? 2 : 3, 0);    // 0 none, 1 {n-1}, 2 {0, n/2}
    int from_task = AUX ? 0 : pmc_choose(2, 0);    // predecessor completes on a worker reached from a task / via transfer from main
    int hint = -1;
    int ta = throw_set == 1 ? n - 1 : throw_set == 2 ? 0 : -1, tb = throw_set == 2 ? n / 2 : -1;
    pmc_on_stuck(on_stuck);
    rt::config c;
    c.workers = W;
    if (AUX) c.rp_callback = &aux_pool;
    rt::start(c);
    auto make = [&] {
        auto sched = AUX ? rt::ex::thread_pool_scheduler{&pika::resource::get_thread_pool("aux")} : rt::ex::thread_pool_scheduler{};
        if (hint >= 0) sched = rt::ex::with_hint(sched, pika::execution::thread_schedule_hint(hint));
        return rt::ex::transfer_just(sched, 4711) | rt::ex::bulk(n, [ta, tb](int i, int& v) {
            ++g->in_flight;
            if (i < 0 || i >= 8) ++g->bad; else ++g->calls[i];
            if (v != 4711) ++g->bad;
            pmc_point("in-call");    // a call has a duration: the completion signal may not overtake it
            ++g->total;
            --g->in_flight;
            if (i == ta || i == tb) throw Thrown{i};
        });
    };
    using op_t = decltype(rt::ex::connect(make(), Rec{}));
    static std::unique_ptr<op_t> op;
    auto launch = [&] {
        op.reset(new op_t(pika::detail::with_result_of([&] { return rt::ex::connect(make(), Rec{}); })));
        // the per-worker index queues, the remaining-task counter and the exception flag
        pmc_watch(op->queues.data(), op->queues.size() * sizeof(op->queues[0]), "queues");
        pmc_watch(&op->tasks_remaining, sizeof(op->tasks_remaining), "tasks_remaining");
        pmc_watch(&op->exception_thrown, sizeof(op->exception_thrown), "exception_thrown");
        rt::ex::start(*op);
    };
    if (from_task) rt::spawn([&] { launch(); ++s.finished; });
    else { launch(); ++s.finished; }
    rt::stop();
    op.reset();
    bool should_throw = (ta >= 0 && ta < n) || (tb >= 0 && tb < n);
    PMC_ASSERT(s.bad == 0, "bad-index-or-value", "f saw an index outside [0,%d) or a changed value", n);
    PMC_ASSERT(s.nv + s.ne == 1, "completion-count", "bulk signalled %d times (n=%d)", s.nv + s.ne, n);
    PMC_ASSERT(s.inflight_at_completion == 0, "completion-early", "receiver signalled while %d calls were running", s.inflight_at_completion);
    if (!should_throw)
    {
        PMC_ASSERT(s.nv == 1 && s.value == 4711, "completion", "value signals %d, value %d", s.nv, s.value);
        for (int i = 0; i < n; ++i) PMC_ASSERT(s.calls[i] == 1, "call-count", "f(%d) was called %d times (n=%d, %d workers)", i, s.calls[i], n, W);
        PMC_ASSERT(s.calls_at_completion == n, "completion-early", "receiver signalled after %d of %d calls", s.calls_at_completion, n);
    }
    else
    {
        PMC_ASSERT(s.ne == 1 && (s.err_idx == ta || s.err_idx == tb), "error-identity", "error signals %d, delivered index %d (thrown: %d, %d)", s.ne, s.err_idx, ta, tb);
        for (int i = 0; i < n; ++i) PMC_ASSERT(s.calls[i] <= 1, "call-count", "f(%d) was called %d times", i, s.calls[i]);
    }
    pmc_outcome("n=%d throw=%d hint=%d %s", n, throw_set, hint, s.nv ? "value" : "error");
}

int main(int argc, char** argv)
{
    static const char* focus = "F-addr: the per-worker contiguous index queues of the bulk operation state, tasks_remaining, exception_thrown";
    static const pmc_spec specs[] = {
        {"bulk_w2_n4", bulk_prog<2, 4>, 2, 3, 0.3, 0.3, 1, focus, nullptr, nullptr},
        {"bulk_w3_n5", bulk_prog<3, 5>, 1, 2, 0.35, 0.4, 1, focus, nullptr, nullptr},
        {"bulk_second_pool", bulk_prog<4, 2, 1>, 1, 2, 0.35, 0.3, 1, focus, nullptr, nullptr},
    };
    static const char* assumptions[] = {"sequentially consistent interleavings only", "2-3 worker threads, n <= 5; a second pool of 2 workers next to a default pool of 2 (n in {1,2}, throwing sets {none, {n-1}})"};
    pmc_config cfg{};
    cfg.property_id = "C11";
    cfg.rule = "n in [0,4] (5 on 3 workers) x throwing sets {none, {n-1}, {0,n/2}} x {started from a task, from the main thread} (data choices) x {default pool, second pool whose global worker numbers differ from the pool-local ones} x all schedules of the chunk-stealing workers within the deviation bound";
    cfg.assumptions = assumptions;
    cfg.n_assumptions = 2;
    cfg.warmup = rt::warmup;
    cfg.quick_budget_s = 120;
    cfg.thorough_budget_s = 900;
    return pmc_main(argc, argv, &cfg, specs, sizeof specs / sizeof specs[0]);
}
