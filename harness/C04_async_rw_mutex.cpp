// C04: async_rw_mutex — exclusive writers, grouped readers, request-order grants, every started access
// granted exactly once, value outlives the last wrapper.  pmc-os: plain OS threads, header-only code.
#include "pmc.h"
#include <pika/execution.hpp>
#include <pika/execution/async_rw_mutex.hpp>
#include <memory>
#include <optional>
#include <thread>
#include <variant>
#include <vector>

namespace ex = pika::execution::experimental;

struct Tracked
{
    static inline int live = 0, ctor = 0, dtor = 0;
    int version = 0;
    int magic = 0x5afe;
    Tracked() { ++live; ++ctor; }
    Tracked(Tracked const& o) : version(o.version) { ++live; ++ctor; }
    Tracked(Tracked&& o) noexcept : version(o.version) { ++live; ++ctor; }
    ~Tracked() { PMC_ASSERT(magic == 0x5afe, "value-double-destroy", "wrapped value destroyed twice"); magic = 0xdead; --live; ++dtor; }
};
using mutex_t = ex::async_rw_mutex<Tracked>;
using rw_t = mutex_t::readwrite_access_type;
using ro_t = mutex_t::read_access_type;

static const int MAXN = 4;
struct Access
{
    char kind;          // 'R' / 'W'
    int role;           // 0: started by thread A, 1: started by thread B, 2: dropped unstarted
    int drop_connected = 0;
    int group;          // number of W before it (reads with equal group may overlap)
    int granted = 0, released = 0, grants = 0, ready = 0, start_called = 0;
    // the access wrapper(s), type-erased (value and void mutexes share the bookkeeping; no reference counts of their own)
    using holder = std::unique_ptr<void, void (*)(void*)>;
    holder held{nullptr, +[](void*) {}}, copy{nullptr, +[](void*) {}};
};
static Access* A;
static int N;
static void on_stuck()
{
    for (int i = 0; i < N; ++i)
        if (A[i].role != 2 && !A[i].granted)
        {
            bool earlier_released = true;
            for (int j = 0; j < i; ++j)
                if ((A[j].kind == 'W' || A[i].kind == 'W') && !A[j].released) earlier_released = false;
            if (earlier_released) pmc_fail("never-granted", "access %d (%c) was started and all earlier conflicting accesses are released, but it was never granted", i, A[i].kind);
        }
}
static void on_grant(int i, int version_seen)
{
    Access& a = A[i];
    ++a.grants;
    PMC_ASSERT(a.grants == 1, "granted-twice", "access %d granted %d times", i, a.grants);
    for (int j = 0; j < N; ++j)
    {
        if (j == i) continue;
        bool conflict = A[j].kind == 'W' || a.kind == 'W';
        bool open = A[j].granted && !A[j].released;
        if (conflict) PMC_ASSERT(!open, "overlap", "access %d (%c) granted while access %d (%c) is still held", i, a.kind, j, A[j].kind);
        if (j < i && conflict) PMC_ASSERT(A[j].released || A[j].role == 2, "order", "access %d (%c) granted before earlier access %d (%c) was released", i, a.kind, j, A[j].kind);
        if (j > i && conflict) PMC_ASSERT(!A[j].granted, "order", "later access %d (%c) was granted before access %d (%c)", j, A[j].kind, i, a.kind);
    }
    PMC_ASSERT(version_seen == a.group || version_seen == -1, "stale-value", "access %d sees version %d, %d read-write accesses were requested before it", i, version_seen, a.group);
    a.granted = 1;
    pmc_note("GRANT access %d (%c) version=%d", i, a.kind, version_seen);
    pmc_progress();
}

// manual consumption: connect to a receiver, start, and keep the operation state alive until the very
// end (as when_all / let_value / ensure_started do): releasing the wrapper alone must release the access
template <typename F>
struct GrantRecv
{
    PIKA_STDEXEC_RECEIVER_CONCEPT
    F f;
    template <typename W>
    void set_value(W&& w) && noexcept { f(std::forward<W>(w)); }
    void set_error(std::exception_ptr) && noexcept { pmc_fail("access-error", "an access sender completed with an error"); }
    void set_stopped() && noexcept { pmc_fail("access-stopped", "an access sender completed with stopped"); }
    constexpr ex::empty_env get_env() const& noexcept { return {}; }
};
struct KeptOp { void* p; void (*del)(void*); };
static std::vector<KeptOp>* g_kept[2];
template <typename S, typename F>
static void start_kept(int who, S&& s, F&& f)
{
    using op_t = decltype(ex::connect(std::forward<S>(s), GrantRecv<std::decay_t<F>>{std::forward<F>(f)}));
    auto* op = new op_t(ex::connect(std::forward<S>(s), GrantRecv<std::decay_t<F>>{std::forward<F>(f)}));
    g_kept[who]->push_back(KeptOp{op, [](void* q) { delete static_cast<op_t*>(q); }});
    ex::start(*op);
}

// INLINE_RELEASE mode: the continuation of an access drops its wrapper at once and then waits until the
// next access whose start() has been called is granted (all earlier accesses are released by then, so it
// must be - inline during the drop, or by its own starting thread)
static void wait_next_granted(int i)
{
    for (int j = i + 1; j < N; ++j)
    {
        if (A[j].role == 2) continue;
        if (!A[j].start_called) return;
        int guard = 0;
        while (!A[j].granted && ++guard < 1500) sched_yield();
        PMC_ASSERT(A[j].granted, "never-granted", "access %d (%c) was started and every earlier access is released (access %d dropped its wrapper inside its continuation), but it is not granted while that continuation keeps running", j, A[j].kind, i);
        return;
    }
}

template <int MAXLEN, int KEEP_OPSTATES = 0, int INLINE_RELEASE = 0, typename M = mutex_t>
static void prog()
{
    using rw_t = typename M::readwrite_access_type;
    using ro_t = typename M::read_access_type;
    constexpr bool VOIDM = std::is_same_v<M, ex::async_rw_mutex<void>>;
    auto ver = [](auto& w) { if constexpr (VOIDM) { (void) w; return -1; } else return w.get().version; };
    auto bump = [](auto& w) { if constexpr (VOIDM) (void) w; else ++w.get().version; };
    (void) ver; (void) bump;
    static Access acc[MAXN];
    for (auto& a : acc) a = Access{};
    A = acc;
    Tracked::live = Tracked::ctor = Tracked::dtor = 0;
    N = 1 + pmc_choose(MAXLEN, 0);
    int nw = 0;
    int started_w_version[MAXN];
    for (int i = 0; i < N; ++i)
    {
        acc[i].kind = pmc_choose(2, 0) ? 'W' : 'R';
        acc[i].role = pmc_choose(3, 0);
        // an access that is never started: its sender is dropped, or (operation-state mode) it is connected
        // to a receiver and the operation state is destroyed without having been started
        acc[i].drop_connected = (KEEP_OPSTATES && acc[i].role == 2) ? pmc_choose(2, 0) : 0;
        acc[i].group = nw;
        if (acc[i].kind == 'W') ++nw;
        started_w_version[i] = 0;
    }
    // a dropped (never started) W still "happens" for ordering but modifies nothing
    int destroy_mutex_early = pmc_choose(2, 0);
    int copy_read = pmc_choose(2, 0);
    pmc_on_stuck(on_stuck);
    // version a granted access must see = number of *started* W before it
    int wcount = 0;
    for (int i = 0; i < N; ++i) { acc[i].group = wcount; if (acc[i].kind == 'W' && acc[i].role != 2) ++wcount; }
    {
        std::vector<KeptOp> kept[2];    // destroyed last: the operation states outlive wrappers, threads and the mutex
        g_kept[0] = &kept[0];
        g_kept[1] = &kept[1];
        struct KeptGuard { std::vector<KeptOp>* k; ~KeptGuard() { for (int w = 0; w < 2; ++w) for (auto& o : k[w]) o.del(o.p); } } kept_guard{kept};
        auto m = [] { if constexpr (VOIDM) return std::make_unique<M>(); else return std::make_unique<M>(Tracked{}); }();
        std::vector<std::function<void()>> start[2];
        // requests in program order on the main thread
        for (int i = 0; i < N; ++i)
        {
            if (acc[i].kind == 'W')
            {
                auto s = m->readwrite();
                if (acc[i].role == 2)
                {
                    if (acc[i].drop_connected)
                    {
                        auto never = [i](rw_t) { pmc_fail("unstarted-granted", "access %d was never started but its receiver was signalled", i); };
                        auto op = ex::connect(std::move(s), GrantRecv<decltype(never)>{never});
                    }
                    continue;    // s (or the unstarted operation state) dropped here
                }
                auto sp = std::make_shared<decltype(s)>(std::move(s));
                int who = acc[i].role;
                start[acc[i].role].push_back([i, sp, who, ver, bump] {
                    auto body = [i, ver, bump](rw_t w) {
                        on_grant(i, ver(w));
                        bump(w);
                        if (INLINE_RELEASE)
                        {
                            A[i].released = 1;
                            { rw_t drop = std::move(w); }
                            pmc_progress();
                            wait_next_granted(i);
                            A[i].ready = 2;
                            return;
                        }
                        A[i].held = Access::holder(new rw_t(std::move(w)), +[](void* q) { delete static_cast<rw_t*>(q); });
                        A[i].ready = 1;
                    };
                    A[i].start_called = 1;
                    if (KEEP_OPSTATES) start_kept(who, std::move(*sp), body);
                    else ex::start_detached(std::move(*sp) | ex::then(body));
                });
            }
            else
            {
                auto s = m->read();
                if (acc[i].role == 2)
                {
                    if (acc[i].drop_connected)
                    {
                        auto never = [i](ro_t) { pmc_fail("unstarted-granted", "access %d was never started but its receiver was signalled", i); };
                        auto op = ex::connect(std::move(s), GrantRecv<decltype(never)>{never});
                    }
                    continue;
                }
                auto sp = std::make_shared<decltype(s)>(std::move(s));
                int who = acc[i].role;
                start[acc[i].role].push_back([i, sp, copy_read, who, ver] {
                    auto body = [i, copy_read, ver](ro_t r) {
                        on_grant(i, ver(r));
                        if (INLINE_RELEASE)
                        {
                            A[i].released = 1;
                            { ro_t drop = std::move(r); }
                            pmc_progress();
                            wait_next_granted(i);
                            A[i].ready = 2;
                            return;
                        }
                        if (copy_read) A[i].copy = Access::holder(new ro_t(r), +[](void* q) { delete static_cast<ro_t*>(q); });    // a second owner of the same read access
                        A[i].held = Access::holder(new ro_t(std::move(r)), +[](void* q) { delete static_cast<ro_t*>(q); });
                        A[i].ready = 1;
                    };
                    A[i].start_called = 1;
                    if (KEEP_OPSTATES) start_kept(who, std::move(*sp), body);
                    else ex::start_detached(std::move(*sp) | ex::then(body));
                });
            }
        }
        if (destroy_mutex_early) m.reset();    // "even if the mutex is destroyed first"
        auto worker = [&](int me) {
            for (auto& f : start[me]) f();
            // release my accesses in request order once they are granted
            for (int i = 0; i < N; ++i)
            {
                if (acc[i].role != me) continue;
                int guard = 0;
                while (!acc[i].ready && ++guard < 2000) sched_yield();
                PMC_ASSERT(acc[i].ready, "never-granted", "access %d (%c) not granted although every earlier access was released or is being released", i, acc[i].kind);
                if (acc[i].ready == 2) continue;    // released inside its continuation
                pmc_note("RELEASE access %d (%c) copy=%d", i, acc[i].kind, (int) (bool) acc[i].copy);
                if (acc[i].copy)
                {
                    acc[i].held.reset();    // first owner gone, the copy still holds the access
                    PMC_ASSERT(VOIDM || Tracked::live >= 1, "value-destroyed-early", "wrapped value destroyed while a read wrapper copy is alive");
                    acc[i].released = 1;
                    acc[i].copy.reset();
                }
                else
                {
                    acc[i].released = 1;
                    acc[i].held.reset();
                }
                pmc_progress();
            }
        };
        std::thread ta(worker, 0), tb(worker, 1);
        ta.join();
        tb.join();
    }
    for (int i = 0; i < N; ++i)
        if (acc[i].role != 2) PMC_ASSERT(acc[i].grants == 1, "not-granted-once", "started access %d granted %d times", i, acc[i].grants);
    PMC_ASSERT(Tracked::live == 0, "value-leaked", "%d instances of the wrapped value alive after the mutex and all wrappers are gone (ctor %d, dtor %d)", Tracked::live, Tracked::ctor, Tracked::dtor);
    pmc_outcome("n=%d", N);
}

int main(int argc, char** argv)
{
    static const char* sites = "async_rw_mutex|_Sp_counted_base|start_detached";
    static const char* focus = "F-site: all atomics in async_rw_mutex.hpp (op_state_head CAS/exchange), the shared_ptr control blocks of the group states and of the value (libstdc++ atomics compiled in the harness TU), start_detached";
    static const pmc_spec specs[] = {
        {"rw_len2", prog<2>, 3, 4, 0.25, 0.15, 1, focus, sites, nullptr},
        {"rw_len3", prog<3>, 2, 3, 0.55, 0.35, 1, focus, sites, nullptr},
        {"rw_len4", prog<4>, -1, 2, 0, 0.3, 1, focus, sites, nullptr},
        {"rw_len2_opstates_kept", prog<2, 1>, 2, 3, 0.15, 0.05, 1, focus, sites, nullptr},
        {"rw_len3_opstates_kept", prog<3, 1>, -1, 2, 0, 0.1, 1, focus, sites, nullptr},
        {"rw_len3_inline_release", prog<3, 0, 1>, 1, 2, 0.1, 0.05, 1, focus, sites, nullptr},
        {"rw_len3_void", prog<3, 0, 0, ex::async_rw_mutex<void>>, 1, 2, 0.15, 0.1, 1, "the void specialisation async_rw_mutex<void> (own read()/readwrite() bookkeeping): same programs, grant log only", sites, nullptr},
    };
    static const char* assumptions[] = {"sequentially consistent interleavings only", "2 starting threads + the requesting main thread", "async_rw_mutex<T> with a tracked value; the void specialisation with the same programs at length <= 3 (no value to check)"};
    pmc_config cfg{};
    cfg.property_id = "C04";
    cfg.rule = "request words over {R,W} (len<=3, thorough 4) x role of each access {started by thread A, by thread B, never started: sender dropped / connected operation state destroyed} x {mutex destroyed right after the requests} x {read wrapper copied} x {start_detached | manual connect/start with operation states kept alive to the end | wrapper dropped inside the continuation, which then waits for the next started access} (data choices) x all schedules within the deviation bound";
    cfg.assumptions = assumptions;
    cfg.n_assumptions = 3;
    cfg.quick_budget_s = 90;
    cfg.thorough_budget_s = 900;
    return pmc_main(argc, argv, &cfg, specs, sizeof specs / sizeof specs[0]);
}
