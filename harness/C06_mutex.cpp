// C06: pika::mutex / timed_mutex / recursive_mutex / spinlocks — mutual exclusion, hand-off,
// try_lock truthfulness, misuse detection.  pmc-rt: tasks on a live 2-worker runtime.
#include "rt_common.h"
#include <pika/mutex.hpp>
#include <pika/synchronization/recursive_mutex.hpp>
#include <pika/concurrency/spinlock.hpp>
#include <pika/thread_support/spinlock.hpp>
#include <mutex>
#include <chrono>

using namespace std::chrono_literals;

struct Shared
{
    int occupancy = 0;     // plain: ++ after acquire, -- before release
    int data = 0;          // written in CS n, read in CS n+1
    int sections = 0;
    int finished = 0;
    int try_failed = 0;
};

template <typename M>
static void enter(Shared& s, M&, int depth = 1)
{
    ++s.occupancy;
    PMC_ASSERT(s.occupancy == depth, "mutual-exclusion", "occupancy %d inside a critical section (expected %d)", s.occupancy, depth);
    if (depth == 1)
    {
        PMC_ASSERT(s.data == s.sections, "cs-visibility", "data written by the previous critical section not visible: %d != %d", s.data, s.sections);
        ++s.sections;
        s.data = s.sections;
    }
}
static void leave(Shared& s) { --s.occupancy; }

enum Sec { S_LOCK, S_TRY, S_LOCK_YIELD, S_LOCK_GUARD2, NSEC };

// T tasks x NS sections, section kinds by data choice
template <typename M, int T, int NS, int ALPHA>
static void mutex_tasks()
{
    int prog[T][NS];
    int nwords = 1;
    for (int i = 0; i < NS; ++i) nwords *= ALPHA;
    int prev = 0;
    for (int t = 0; t < T; ++t)
    {
        int w = prev + pmc_choose(nwords - prev, 0);
        prev = w;
        for (int i = 0; i < NS; ++i) { prog[t][i] = w % ALPHA; w /= ALPHA; }
    }
    Shared s;
    M m;
    pmc_watch(&m, sizeof m, "mutex");
    rt::start();
    for (int t = 0; t < T; ++t)
        rt::spawn([&, t] {
            rt::watch_self(t == 0 ? "task0" : t == 1 ? "task1" : "task2");
            for (int i = 0; i < NS; ++i)
            {
                switch (prog[t][i])
                {
                case S_LOCK:
                    m.lock();
                    enter(s, m);
                    pmc_point("in-critical-section");    // the owner can be pre-empted while it holds the lock
                    leave(s);
                    m.unlock();
                    break;
                case S_TRY:
                    if (m.try_lock())
                    {
                        enter(s, m);
                        pmc_point("in-critical-section");
                        leave(s);
                        m.unlock();
                    }
                    else
                        ++s.try_failed;
                    break;
                case S_LOCK_YIELD:
                    m.lock();
                    enter(s, m);
                    pika::this_thread::yield();
                    PMC_ASSERT(s.occupancy == 1, "mutual-exclusion", "occupancy %d after yield inside the critical section", s.occupancy);
                    leave(s);
                    m.unlock();
                    break;
                case S_LOCK_GUARD2:
                {
                    std::unique_lock<M> l(m);
                    enter(s, m);
                    leave(s);
                    l.unlock();
                    l.lock();
                    enter(s, m);
                    leave(s);
                }
                break;
                }
            }
            ++s.finished;
        });
    rt::stop();
    PMC_ASSERT(s.finished == T, "task-lost", "%d of %d tasks finished", s.finished, T);
    PMC_ASSERT(s.occupancy == 0, "mutual-exclusion", "occupancy %d at the end", s.occupancy);
    pmc_outcome("sections=%d try_failed=%d", s.sections, s.try_failed);
}

// timed_mutex: B's try_lock_for must succeed when the only competitor unlocked before B's deadline
template <int FIXED>
static void timed_mutex_pair()
{
    // FIXED: the one program in which a notified timed waiter must find the mutex owned again
    int a_yields = FIXED ? 1 : pmc_choose(2, 0);
    int b_form = FIXED ? 0 : pmc_choose(2, 0);    // 0: try_lock_for, 1: try_lock_until
    int a_relock = FIXED ? 1 : pmc_choose(3, 0);  // 0: no; 1: A re-locks and holds across B's deadline; 2: via try_lock
    Shared s;
    pika::timed_mutex m;
    pmc_watch(&m, sizeof m, "timed_mutex");
    uint64_t t_unlocked = 0, b_deadline = 0, b_called = 0;
    int b_result = -1, a_first = 0;
    rt::start();
    rt::spawn([&] {
        rt::watch_self("taskA");
        m.lock();
        if (b_called == 0) a_first = 1;
        enter(s, m);
        if (a_yields) pika::this_thread::yield();
        leave(s);
        m.unlock();
        t_unlocked = pmc_now();
        if (a_relock)
        {
            // second critical section that spans B's deadline (if B is waiting): a notified timed
            // waiter must find the mutex owned again and give up
            bool got = true;
            if (a_relock == 1) m.lock(); else got = m.try_lock();
            if (got)
            {
                enter(s, m);
                // hold the mutex across B's deadline without producing progress events: block this
                // worker in an (interposed) sleep of 60 virtual ms
                if (b_called && b_result < 0) { struct timespec ts = {0, 60000000}; nanosleep(&ts, nullptr); }
                PMC_ASSERT(s.occupancy == 1, "mutual-exclusion", "occupancy %d while the re-locking owner holds the mutex", s.occupancy);
                leave(s);
                m.unlock();
            }
        }
        ++s.finished;
    });
    rt::spawn([&] {
        rt::watch_self("taskB");
        b_called = pmc_now();
        b_deadline = b_called + 50000000ull;
        pmc_deadline(b_deadline);
        bool ok = b_form ? m.try_lock_until(std::chrono::steady_clock::now() + 50ms) : m.try_lock_for(50ms);
        b_result = ok;
        if (ok)
        {
            enter(s, m);
            leave(s);
            m.unlock();
        }
        ++s.finished;
    });
    rt::stop();
    PMC_ASSERT(s.finished == 2, "task-lost", "%d of 2 tasks finished", s.finished);
    // A locks exactly once and never again: if its unlock returned (virtual time) before B's
    // deadline, B was either never blocked or was notified before the deadline
    if (t_unlocked + 2000 < b_deadline && !a_relock)
        PMC_ASSERT(b_result == 1, "timed-lock-missed", "try_lock_%s returned false although the only owner unlocked %.3f ms before the deadline",
            b_form ? "until" : "for", (b_deadline - t_unlocked) / 1e6);
    pmc_outcome("b=%d a_first=%d unlocked_before_deadline=%d", b_result, a_first, (int) (t_unlocked < b_deadline));
}

// three tasks: the owner, a timed waiter queued first, a plain lock() waiter queued behind it.  The owner
// unlocks before the timed waiter's deadline but keeps its worker busy until after it (1 worker), so the
// notified timed waiter runs again only after its deadline.  Whatever it returns, the unlock must not be
// lost: the task blocked in lock() gets the mutex.
static void timed_mutex_three()
{
    Shared s;
    pika::timed_mutex m;
    pmc_watch(&m, sizeof m, "timed_mutex");
    int workers = 1 + pmc_choose(2, 0);
    static int owner_has, b_waiting, c_waiting, c_got, b_result;
    owner_has = b_waiting = c_waiting = c_got = 0;
    b_result = -1;
    pmc_on_stuck([] { pmc_fail("unlock-lost", "the owner unlocked, the timed waiter in front returned %d, but the task blocked in lock() never acquired the mutex", b_result); });
    rt::config c;
    c.workers = workers;
    rt::start(c);
    rt::spawn([&] {
        rt::watch_self("owner");
        m.lock();
        owner_has = 1;
        enter(s, m);
        int guard = 0;
        while (!(b_waiting && c_waiting) && ++guard < 300) pika::this_thread::yield();
        for (int i = 0; i < 2; ++i) pika::this_thread::yield();    // both are (about to be) queued
        leave(s);
        m.unlock();
        // keep this worker until the timed waiter's deadline has passed: an interposed sleep of 60 virtual ms
        struct timespec ts = {0, 60000000};
        nanosleep(&ts, nullptr);
        ++s.finished;
    });
    rt::spawn([&] {
        rt::watch_self("taskB");
        int guard = 0;
        while (!owner_has && ++guard < 300) pika::this_thread::yield();
        b_waiting = 1;
        pmc_deadline(pmc_now() + 50000000ull);
        bool ok = m.try_lock_for(50ms);
        b_result = ok;
        if (ok) { enter(s, m); leave(s); m.unlock(); }
        ++s.finished;
    });
    rt::spawn([&] {
        rt::watch_self("taskC");
        int guard = 0;
        while (!b_waiting && ++guard < 300) pika::this_thread::yield();
        c_waiting = 1;
        m.lock();
        c_got = 1;
        enter(s, m);
        leave(s);
        m.unlock();
        ++s.finished;
    });
    rt::stop();
    PMC_ASSERT(s.finished == 3 && c_got, "unlock-lost", "%d of 3 tasks finished, the lock() waiter acquired: %d (timed waiter returned %d)", s.finished, c_got, b_result);
    pmc_outcome("workers=%d b=%d", workers, b_result);
}

// recursive mutex: re-entrant depth 2
template <typename RM, int T>
static void recursive_tasks()
{
    int form[T];
    for (int t = 0; t < T; ++t) form[t] = pmc_choose(2, 0);    // 0: lock/lock, 1: try_lock/lock
    Shared s;
    RM m;
    pmc_watch(&m, sizeof m, "recursive_mutex");
    int owner = -1, depth = 0;
    rt::start();
    for (int t = 0; t < T; ++t)
        rt::spawn([&, t] {
            rt::watch_self(t == 0 ? "task0" : t == 1 ? "task1" : "task2");
            bool got = true;
            if (form[t] == 0) m.lock();
            else got = m.try_lock();
            if (got)
            {
                PMC_ASSERT(owner == -1 && depth == 0, "mutual-exclusion", "task %d acquired while task %d holds it at depth %d", t, owner, depth);
                owner = t;
                depth = 1;
                m.lock();    // re-entrant
                PMC_ASSERT(owner == t && depth == 1, "recursive-owner", "owner changed during re-entrant lock");
                depth = 2;
                pika::this_thread::yield();
                PMC_ASSERT(owner == t && depth == 2, "mutual-exclusion", "owner %d depth %d after yield (expected %d/2)", owner, depth, t);
                PMC_ASSERT(m.try_lock(), "recursive-try", "owner's try_lock failed");
                m.unlock();
                depth = 1;
                m.unlock();
                PMC_ASSERT(owner == t && depth == 1, "recursive-early-release", "lock handed on before the last unlock");
                depth = 0;
                owner = -1;
                m.unlock();
            }
            else
                ++s.try_failed;
            ++s.finished;
        });
    rt::stop();
    PMC_ASSERT(s.finished == T, "task-lost", "%d of %d tasks finished", s.finished, T);
    pmc_outcome("try_failed=%d", s.try_failed);
}

// recursive mutex: "counted re-entrantly" at the boundaries of the counter's possible representations: the owner
// nests N levels (N around 2^8, 2^16 and 2^32 is not executable; 2^8 and 2^16 are), releases all but one and the other
// task's try_lock must fail; after the last unlock it must succeed.  No scheduling choices: a boundary-input enumeration.
template <typename RM>
static void recursive_deep()
{
    static const long depths[] = {1, 2, 3, 127, 128, 129, 255, 256, 257, 32767, 32768, 65535, 65536, 65537, 131071, 131072, 131073};
    long N = depths[pmc_choose(sizeof depths / sizeof depths[0], 0)];
    int partial = pmc_choose(2, 0);    // 0: unlock N-1 levels before the probe, 1: unlock exactly one level before the probe
    Shared s;
    RM m;
    // (not watched: an input enumeration under the default schedule - 131073 nested locks would otherwise be as many choice points)
    static int phase, probe_result[2];
    phase = 0;
    probe_result[0] = probe_result[1] = -1;
    rt::start();
    rt::spawn([&, N, partial] {
        rt::watch_self("task0");
        for (long i = 0; i < N; ++i) { if (i & 1) { PMC_ASSERT(m.try_lock(), "recursive-try", "owner's try_lock failed at depth %ld", i); } else m.lock(); }
        long rel = N == 1 ? 0 : partial ? 1 : N - 1;
        for (long i = 0; i < rel; ++i) m.unlock();
        phase = 1;    // still held (N - rel >= 1 levels)
        while (phase != 2) pika::this_thread::suspend(pika::threads::detail::thread_schedule_state::pending, "C06 deep owner");
        for (long i = 0; i < N - rel; ++i) m.unlock();
        phase = 3;
        ++s.finished;
    });
    rt::spawn([&, N] {
        rt::watch_self("task1");
        while (phase != 1) pika::this_thread::suspend(pika::threads::detail::thread_schedule_state::pending, "C06 deep prober");
        bool got = m.try_lock();
        probe_result[0] = got;
        PMC_ASSERT(!got, "mutual-exclusion", "recursive mutex locked %ld times by its owner and not yet fully unlocked: another task's try_lock succeeded", N);
        phase = 2;
        while (phase != 3) pika::this_thread::suspend(pika::threads::detail::thread_schedule_state::pending, "C06 deep prober");
        got = m.try_lock();
        probe_result[1] = got;
        PMC_ASSERT(got, "unlock-lost", "recursive mutex locked %ld times and unlocked %ld times is still not available", N, N);
        m.unlock();
        ++s.finished;
    });
    rt::stop();
    PMC_ASSERT(s.finished == 2, "task-lost", "%d of 2 tasks finished", s.finished);
    pmc_outcome("depth=%ld partial=%d", N, partial);
}

// misuse the API promises to detect
static void misuse()
{
    int which = pmc_choose(2, 0);
    pika::mutex m;
    pmc_watch(&m, sizeof m, "mutex");
    int step = 0;
    bool reported = false, after_ok = false;
    rt::start();
    if (which == 0)
    {
        // re-locking an owned mutex
        rt::spawn([&] {
            m.lock();
            pika::error_code ec(pika::throwmode::lightweight);
            m.lock(ec);
            reported = ec.value() == (int) pika::error::deadlock;
            bool thrown = false;
            try { m.lock(); } catch (pika::exception const& e) { thrown = e.get_error() == pika::error::deadlock; }
            reported = reported && thrown;
            m.unlock();
            m.lock();
            m.unlock();
            after_ok = true;
        });
    }
    else
    {
        // unlocking a mutex owned by another task
        rt::spawn([&] {
            rt::watch_self("owner");
            m.lock();
            step = 1;
            while (step < 2) pika::this_thread::yield();
            m.unlock();
            step = 3;
        });
        rt::spawn([&] {
            rt::watch_self("intruder");
            while (step < 1) pika::this_thread::yield();
            pika::error_code ec(pika::throwmode::lightweight);
            m.unlock(ec);
            reported = ec.value() == (int) pika::error::lock_error;
            bool thrown = false;
            try { m.unlock(); } catch (pika::exception const& e) { thrown = e.get_error() == pika::error::lock_error; }
            reported = reported && thrown;
            PMC_ASSERT(!m.try_lock(), "misuse-corrupted", "foreign unlock released the mutex");
            step = 2;
            m.lock();
            m.unlock();
            after_ok = true;
        });
    }
    rt::stop();
    PMC_ASSERT(reported, "misuse-not-reported", "%s was not reported as an error", which == 0 ? "re-locking an owned mutex" : "unlocking a foreign mutex");
    PMC_ASSERT(after_ok, "misuse-corrupted", "normal lock/unlock cycle after the misuse did not complete");
    pmc_outcome("which=%d", which);
}

// the spinlocks from plain OS threads (every atomic step of lock/unlock is a scheduling point, no runtime in the
// way): T threads x OPS lock/unlock sections; the hand-over after a release with several contenders (a waiter that
// saw the lock free, a fresh locker, the previous owner re-locking) needs 3-4 deviations, cheap only here
template <typename L, int T, int OPS>
static void spin_os()
{
    static L lk;
    new (&lk) L();
    pmc_watch(&lk, sizeof lk, "spinlock");
    static int inside, total;
    inside = total = 0;
    std::vector<std::thread> th;
    for (int t = 0; t < T; ++t)
        th.emplace_back([] {
            for (int i = 0; i < OPS; ++i)
            {
                lk.lock();
                ++inside;
                PMC_ASSERT(inside == 1, "mutual-exclusion", "%d threads inside the critical section of a spinlock", inside);
                pmc_point("in-critical-section");
                PMC_ASSERT(inside == 1, "mutual-exclusion", "%d threads inside the critical section of a spinlock", inside);
                ++total;
                --inside;
                lk.unlock();
            }
        });
    for (auto& t : th) t.join();
    PMC_ASSERT(total == T * OPS, "lost-update", "%d of %d sections ran", total, T * OPS);
    PMC_ASSERT(lk.try_lock(), "unlock-lost", "the spinlock is not free after all sections have ended");
    lk.unlock();
    pmc_outcome("total=%d", total);
}

int main(int argc, char** argv)
{
    static const char* focus = "F-addr: the mutex object (owner id, internal spinlock, waiter queue) + each task's thread_data (state word)";
    static const pmc_spec specs[] = {
        {"mutex_2x1", mutex_tasks<pika::mutex, 2, 1, 3>, 2, 3, 0.45, 0.3, 1, focus, nullptr, nullptr},
        {"mutex_3x1", mutex_tasks<pika::mutex, 3, 1, 4>, 1, 2, 0.1, 0.3, 1, focus, nullptr, nullptr},
        {"mutex_2x2", mutex_tasks<pika::mutex, 2, 2, 3>, 1, 2, 0.1, 0.15, 1, focus, nullptr, nullptr},
        {"timed_mutex_relock", timed_mutex_pair<1>, 2, 3, 0.1, 0.1, 1, "F-addr: timed_mutex + both tasks' state words; fixed program: owner unlocks, re-locks and holds across the timed waiter's deadline", nullptr, nullptr},
        {"timed_mutex_three", timed_mutex_three, 1, 2, 0.1, 0.1, 1, "F-addr: timed_mutex + task state words; owner, timed waiter in front, lock() waiter behind; the timed waiter resumes after its deadline", nullptr, nullptr},
        {"timed_mutex_pair", timed_mutex_pair<0>, 1, 2, 0.1, 0.1, 1, "F-addr: timed_mutex + both tasks' thread_data; early-timeout deviation = clock jump to B's deadline", nullptr, nullptr},
        {"recursive_mutex_2", recursive_tasks<pika::detail::recursive_mutex_impl<pika::mutex>, 2>, 1, 2, 0.1, 0.1, 1, "F-addr: recursive_mutex_impl<pika::mutex> + thread_data", nullptr, nullptr},
        {"recursive_deep", recursive_deep<pika::detail::recursive_mutex_impl<>>, 0, 0, 0.03, 0.02, 0, "nesting depths at the boundaries of 8/16-bit counters (input enumeration, default schedule)", nullptr, nullptr},
        {"recursive_deep_mutex", recursive_deep<pika::detail::recursive_mutex_impl<pika::mutex>>, 0, 0, 0.03, 0.02, 0, "the same with pika::mutex as the inner lock", nullptr, nullptr},
        {"recursive_spin_2", recursive_tasks<pika::detail::recursive_mutex_impl<>, 2>, 2, 3, 0.3, 0.1, 1, "F-addr: recursive_mutex (recursion_count, locking_context, inner mutex) + thread_data", nullptr, nullptr},
        {"spinlock_2x1", mutex_tasks<pika::concurrency::detail::spinlock, 2, 1, 3>, 1, 3, 0.05, 0.05, 1, "F-addr: concurrency::detail::spinlock + thread_data", nullptr, nullptr},
        {"spinlock_os_3x1", spin_os<pika::concurrency::detail::spinlock, 3, 1>, 4, 5, 0.05, 0.05, 1, "F-addr: concurrency::detail::spinlock; 3 OS threads", nullptr, nullptr},
        {"spinlock_os_2x2", spin_os<pika::concurrency::detail::spinlock, 2, 2>, 4, 5, 0.05, 0.05, 1, "F-addr: concurrency::detail::spinlock; 2 OS threads, two sections each", nullptr, nullptr},
        {"ts_spinlock_os_3x1", spin_os<pika::detail::spinlock, 3, 1>, 4, 5, 0.05, 0.05, 1, "F-addr: pika::detail::spinlock (thread_support); 3 OS threads", nullptr, nullptr},
        {"misuse", misuse, 1, 2, 0.1, 0.05, 1, focus, nullptr, nullptr},
        {"ts_spinlock_2x1", mutex_tasks<pika::detail::spinlock, 2, 1, 3>, 1, 3, 0.05, 0.05, 1, "F-addr: pika::detail::spinlock (thread_support) + thread_data", nullptr, nullptr},
    };
    static const char* assumptions[] = {"sequentially consistent interleavings only", "2 worker threads"};
    pmc_config cfg{};
    cfg.property_id = "C06";
    cfg.rule = "task programs (section kinds by data choice) x all schedules within the deviation bound on a live 2-worker runtime";
    cfg.assumptions = assumptions;
    cfg.n_assumptions = 2;
    cfg.warmup = rt::warmup;
    cfg.quick_budget_s = 120;
    cfg.thorough_budget_s = 900;
    return pmc_main(argc, argv, &cfg, specs, sizeof specs / sizeof specs[0]);
}
