// C12: a task's context survives suspension, migration and recycling.  pmc-rt, 2 workers.
#include "rt_common.h"
#include <pika/synchronization/event.hpp>
#include <pika/threading_base/thread_data_stackful.hpp>
#include <pika/threading_base/thread_helpers.hpp>
#include <cfenv>
#include <cstring>

// callee-saved register probe: loads key-derived canaries into rbx, rbp, r12-r15, calls fn(arg)
// (which yields / suspends), and returns a bit mask of the registers that came back changed
extern "C" long ctx_probe(void (*fn)(void*), void* arg, unsigned long key);
asm(R"(
    .text
    .globl ctx_probe
    .type ctx_probe,@function
ctx_probe:
    pushq %rbp
    pushq %rbx
    pushq %r12
    pushq %r13
    pushq %r14
    pushq %r15
    subq $8, %rsp
    movq %rdx, (%rsp)
    movq %rdx, %rbx
    leaq 1(%rdx), %r12
    leaq 2(%rdx), %r13
    leaq 3(%rdx), %r14
    leaq 4(%rdx), %r15
    leaq 5(%rdx), %rbp
    movq %rdi, %rax
    movq %rsi, %rdi
    call *%rax
    movq (%rsp), %rdx
    xorq %rax, %rax
    cmpq %rdx, %rbx
    je 1f
    orq $1, %rax
1:  leaq 1(%rdx), %rcx
    cmpq %rcx, %r12
    je 2f
    orq $2, %rax
2:  leaq 2(%rdx), %rcx
    cmpq %rcx, %r13
    je 3f
    orq $4, %rax
3:  leaq 3(%rdx), %rcx
    cmpq %rcx, %r14
    je 4f
    orq $8, %rax
4:  leaq 4(%rdx), %rcx
    cmpq %rcx, %r15
    je 5f
    orq $16, %rax
5:  leaq 5(%rdx), %rcx
    cmpq %rcx, %rbp
    je 6f
    orq $32, %rax
6:  addq $8, %rsp
    popq %r15
    popq %r14
    popq %r13
    popq %r12
    popq %rbx
    popq %rbp
    ret
)");

struct St
{
    int finished = 0, migrations = 0;
    struct Range { char* lo; char* hi; int live; } range[4] = {};
};
static St* g;
static pika::experimental::event* g_ev;
enum Sw { SW_YIELD, SW_SUSPEND };
struct SwArg { int kind; int id; };
static void do_switch(void* p)
{
    SwArg* a = (SwArg*) p;
    if (a->kind == SW_YIELD) pika::this_thread::yield();
    else g_ev[a->id].wait();
}
static void stack_range(char*& lo, char*& hi)
{
    auto* td = static_cast<pika::threads::detail::thread_data_stackful*>(pika::threads::detail::get_self_id_data());
    lo = (char*) td->coroutine_.impl_.m_stack;
    hi = lo + td->coroutine_.impl_.m_stack_size;
}
// recursion that fills a frame with depth-keyed canaries, switches at the bottom, checks on the way up
static void descend(int depth, int id, SwArg* sw, unsigned long key)
{
    volatile unsigned long frame[8];
    for (int i = 0; i < 8; ++i) frame[i] = key * 131 + depth * 17 + i;
    if (depth > 0) descend(depth - 1, id, sw, key);
    else
    {
        long mask = ctx_probe(&do_switch, sw, key);
        PMC_ASSERT(mask == 0, "callee-saved-register", "task %d: callee-saved registers changed across a %s (mask 0x%lx: rbx,r12,r13,r14,r15,rbp)", id, sw->kind == SW_YIELD ? "yield" : "suspension", mask);
    }
    for (int i = 0; i < 8; ++i)
        PMC_ASSERT(frame[i] == key * 131 + depth * 17 + i, "stack-contents", "task %d: stack frame at depth %d changed across a switch", id, depth);
}

// state owned by the task's callable: its destructor runs on the task's stack when the runtime destroys the thread
// function after the body has returned - still as part of the task (pika lets such destructors yield), so the
// task's identity must be intact there and across a yield inside it
struct OwnedGuard
{
    int id = -1;
    pika::threads::detail::thread_id_type self{};
    ~OwnedGuard()
    {
        PMC_ASSERT(pika::threads::detail::get_self_ptr() != nullptr && pika::threads::detail::get_self_id() == self, "identity",
            "task %d: inside the destructor of state owned by the task function the task has no / another identity", id);
        pika::this_thread::yield();
        PMC_ASSERT(pika::threads::detail::get_self_ptr() != nullptr && pika::threads::detail::get_self_id() == self, "identity",
            "task %d: identity changed across a yield inside the destructor of state owned by the task function", id);
        ++g_guards_done;
    }
    static inline int g_guards_done = 0;
};

// T tasks, each: set identity + task data + stack canaries, then a sequence of switches at call depth
template <int T, int STACK>
static void canaries_prog()
{
    static St s;
    s = St{};
    g = &s;
    int seq = pmc_choose(4, 0);    // switch kinds: YY, YS, SY, SS
    int depth = pmc_choose(2, 0) * 3;
    g_ev = new pika::experimental::event[T];
    rt::config c;
    c.workers = 2;
    rt::start(c);
    auto sched = rt::ex::with_stacksize(rt::ex::thread_pool_scheduler{}, STACK == 0 ? pika::execution::thread_stacksize::small_ : STACK == 1 ? pika::execution::thread_stacksize::medium : STACK == 2 ? pika::execution::thread_stacksize::large : pika::execution::thread_stacksize::huge);
    OwnedGuard::g_guards_done = 0;
    for (int id = 0; id < T; ++id)
        rt::ex::execute(sched, [&, id, seq, depth, guard = std::make_shared<OwnedGuard>()] {
            rt::watch_self_full(id == 0 ? "task0" : id == 1 ? "task1" : "task2");
            auto self = pika::threads::detail::get_self_id();
            guard->self = self;
            guard->id = id;
            unsigned long key = 0x1000 + id * 0x111;
            pika::threads::detail::set_thread_data(self, key);
            volatile char local_marker = (char) id;
            char *lo, *hi;
            stack_range(lo, hi);
            PMC_ASSERT((char*) &local_marker >= lo && (char*) &local_marker < hi, "own-stack", "task %d: a local variable (%p) is not inside the task's own stack [%p,%p)", id, (void*) &local_marker, (void*) lo, (void*) hi);
            for (int o = 0; o < 4; ++o)
                if (g->range[o].live) PMC_ASSERT(hi <= g->range[o].lo || lo >= g->range[o].hi, "stack-overlap", "stacks of two live tasks overlap");
            g->range[id] = {lo, hi, 1};
            size_t w0 = pika::get_worker_thread_num();
            for (int k = 0; k < 2; ++k)
            {
                SwArg sw{(seq >> k) & 1, id};
                descend(depth, id, &sw, key + k);
                PMC_ASSERT(pika::threads::detail::get_self_id() == self, "identity", "task %d: get_self_id() changed across a switch", id);
                PMC_ASSERT(pika::threads::detail::get_thread_data(self) == key, "task-data", "task %d: task-local data changed across a switch", id);
                PMC_ASSERT(local_marker == (char) id, "stack-contents", "task %d: local variable changed", id);
                char *lo2, *hi2;
                stack_range(lo2, hi2);
                PMC_ASSERT(lo2 == lo && hi2 == hi, "own-stack", "task %d: stack range changed across a switch", id);
            }
            if (pika::get_worker_thread_num() != w0) ++g->migrations;
            g->range[id].live = 0;
            ++g->finished;
        });
    // resumer: sets the events (tasks that suspend are resumed by a peer)
    rt::spawn([&] { pika::this_thread::yield(); for (int i = 0; i < T; ++i) g_ev[i].set(); });
    rt::stop();
    PMC_ASSERT(s.finished == T, "task-lost", "%d of %d tasks finished", s.finished, T);
    PMC_ASSERT(OwnedGuard::g_guards_done == T, "task-lost", "%d of %d task functions were destroyed (with their owned state) by the time the runtime had stopped", OwnedGuard::g_guards_done, T);
    pmc_outcome("migrated=%d", s.migrations > 0);
}

// floating-point control state (MXCSR rounding mode) across a switch and a migration
static void fp_prog()
{
    static St s;
    s = St{};
    g = &s;
    rt::start();
    for (int id = 0; id < 2; ++id)
        rt::spawn([&, id] {
            rt::watch_self_full(id ? "fp1" : "fp0");
            int mode = id ? FE_UPWARD : FE_DOWNWARD;
            std::fesetround(mode);
            for (int k = 0; k < 2; ++k)
            {
                pika::this_thread::yield();
                PMC_ASSERT(std::fegetround() == mode, "fp-control-state", "task %d: the floating-point rounding mode it set (0x%x) reads 0x%x after a yield (worker %zu)", id, mode, std::fegetround(), pika::get_worker_thread_num());
            }
            std::fesetround(FE_TONEAREST);
            ++g->finished;
        });
    rt::stop();
    PMC_ASSERT(s.finished == 2, "task-lost", "%d of 2 tasks finished", s.finished);
    pmc_outcome("ok");
}

// a task whose object and stack are recycled starts clean
static void recycle_prog()
{
    static St s;
    s = St{};
    g = &s;
    int victims = 1 + pmc_choose(2, 0);
    int yields_before_interrupt = pmc_choose(3, 0);    // 0: request may be consumed by the predecessor; >0: it usually arrives after its last interruption point
    int yields_before_successors = pmc_choose(2, 0) * 2;
    static int born_interrupted, born_with_data, born_disabled, ran, reused;
    born_interrupted = born_with_data = born_disabled = ran = reused = 0;
    rt::config c;
    c.workers = pmc_choose(2, 0) + 1;
    // recycle terminated thread objects at once (default: only after 100 have piled up or when idle),
    // so that the successors really get the predecessor's object
    c.extra = {"pika.thread_queue.max_terminated_threads=0"};
    rt::start(c);
    rt::spawn([&, victims, yields_before_interrupt, yields_before_successors] {
        // predecessor: leaves an unconsumed interruption request, task data and disabled interruption behind
        void* prev = nullptr;
        {
            pika::thread a([&] {
                prev = pika::threads::detail::get_self_id_data();
                pika::threads::detail::set_thread_data(pika::threads::detail::get_self_id(), 0xBAD);
                // not pika::this_thread::yield(): it is noexcept (C13 known finding)
                pika::this_thread::suspend(pika::threads::detail::thread_schedule_state::pending, "C12 predecessor");
            });
            for (int i = 0; i < yields_before_interrupt; ++i) pika::this_thread::yield();
            a.interrupt();    // may arrive before, during or after the body: never consumed if after
            a.join();
        }
        for (int i = 0; i < yields_before_successors; ++i) pika::this_thread::yield();    // lets the worker clean up / recycle terminated objects
        for (int v = 0; v < victims; ++v)
        {
            pika::thread b([&] {
                ++ran;
                if (pika::threads::detail::get_self_id_data() == prev) ++reused;
                if (pika::this_thread::interruption_requested()) ++born_interrupted;
                if (!pika::this_thread::interruption_enabled()) ++born_disabled;
                if (pika::threads::detail::get_thread_data(pika::threads::detail::get_self_id()) != 0) ++born_with_data;
            });
            b.join();
        }
        ++g->finished;
    });
    rt::stop();
    PMC_ASSERT(s.finished == 1 && ran == victims, "task-lost", "%d of %d fresh tasks ran", ran, victims);
    PMC_ASSERT(born_interrupted == 0, "inherited-interruption", "%d task(s) on a recycled thread object started with an interruption request pending", born_interrupted);
    PMC_ASSERT(born_disabled == 0, "inherited-interruption-disabled", "%d task(s) started with interruption disabled", born_disabled);
    PMC_ASSERT(born_with_data == 0, "inherited-task-data", "%d task(s) on a recycled thread object started with the previous task's data", born_with_data);
    pmc_outcome("victims=%d reused=%d", victims, reused);
}

// a thread object (and its stack) recycled from a task of stack-size class X must not be handed to a task
// of another class Y: every task runs on a stack of the size configured for its own class
static void recycle_classes_prog()
{
    static St s;
    s = St{};
    g = &s;
    int x = pmc_choose(4, 0), y = pmc_choose(4, 0);
    int yields_between = pmc_choose(2, 0) * 2;
    static long real_size[2], reported[2];
    static int ran;
    real_size[0] = real_size[1] = reported[0] = reported[1] = ran = 0;
    rt::config c;
    c.workers = pmc_choose(2, 0) + 1;
    // distinct, non-default sizes for all classes (in this build small and medium default to the same
    // 128 KiB, which would make the medium branch of the recycling code unreachable; a size that is only
    // honoured when it equals the default would go unnoticed)
    c.extra = {"pika.thread_queue.max_terminated_threads=0", "pika.stacks.small_size=0x28000", "pika.stacks.medium_size=0x40000", "pika.stacks.large_size=0x300000", "pika.stacks.huge_size=0x800000"};
    rt::start(c);
    static const pika::execution::thread_stacksize cls[4] = {pika::execution::thread_stacksize::small_, pika::execution::thread_stacksize::medium, pika::execution::thread_stacksize::large, pika::execution::thread_stacksize::huge};
    static const char* key[4] = {"pika.stacks.small_size", "pika.stacks.medium_size", "pika.stacks.large_size", "pika.stacks.huge_size"};
    long configured[2] = {std::stol(pika::detail::get_config_entry(key[x], std::string("0")), nullptr, 0), std::stol(pika::detail::get_config_entry(key[y], std::string("0")), nullptr, 0)};
    rt::spawn([&, x, y, yields_between] {
        for (int k = 0; k < 2; ++k)
        {
            auto sched = rt::ex::with_stacksize(rt::ex::thread_pool_scheduler{}, cls[k == 0 ? x : y]);
            rt::tt::sync_wait(rt::ex::schedule(sched) | rt::ex::then([k] {
                char *lo, *hi;
                stack_range(lo, hi);
                real_size[k] = (long) (hi - lo);
                reported[k] = (long) pika::threads::detail::get_self_stacksize();
                volatile char probe = 0;
                PMC_ASSERT((char*) &probe >= lo && (char*) &probe < hi, "stack-range", "a local variable of the task lies outside the stack its thread object describes");
                ++ran;
            }));
            if (k == 0) for (int i = 0; i < yields_between; ++i) pika::this_thread::yield();    // the worker recycles the terminated object
        }
        ++g->finished;
    });
    rt::stop();
    PMC_ASSERT(s.finished == 1 && ran == 2, "task-lost", "%d of 2 tasks ran", ran);
    for (int k = 0; k < 2; ++k)
        PMC_ASSERT(real_size[k] >= configured[k] && reported[k] == configured[k], "wrong-stack-size", "task %d of stack class %d runs on a stack of %ld bytes (reports %ld), configured for its class: %ld", k, k == 0 ? x : y, real_size[k], reported[k], configured[k]);
    pmc_outcome("x=%d y=%d", x, y);
}

// stack-size class "current": a task created with it runs on a stack of its creator's class (also when the
// new task is first staged and only later turned into a thread object by a worker's scheduling loop)
static void stacksize_current_prog()
{
    static St s;
    s = St{};
    g = &s;
    int x = pmc_choose(3, 0), high = pmc_choose(2, 0), grandchild = pmc_choose(2, 0);
    static long real_size[3], reported[3];
    static int ran;
    real_size[0] = real_size[1] = real_size[2] = reported[0] = reported[1] = reported[2] = ran = 0;
    rt::config c;
    c.workers = 2;
    c.extra = {"pika.stacks.medium_size=0x40000"};
    rt::start(c);
    static const pika::execution::thread_stacksize cls[3] = {pika::execution::thread_stacksize::small_, pika::execution::thread_stacksize::medium, pika::execution::thread_stacksize::large};
    static const char* key[3] = {"pika.stacks.small_size", "pika.stacks.medium_size", "pika.stacks.large_size"};
    long configured = std::stol(pika::detail::get_config_entry(key[x], std::string("0")), nullptr, 0);
    auto measure = [](int k) {
        char *lo, *hi;
        stack_range(lo, hi);
        real_size[k] = (long) (hi - lo);
        reported[k] = (long) pika::threads::detail::get_self_stacksize();
        ++ran;
    };
    auto cur = [high] {
        auto sc = rt::ex::with_stacksize(rt::ex::thread_pool_scheduler{}, pika::execution::thread_stacksize::current);
        return rt::ex::with_priority(sc, high ? pika::execution::thread_priority::high : pika::execution::thread_priority::normal);
    };
    rt::spawn([&, x, grandchild] {
        rt::tt::sync_wait(rt::ex::schedule(rt::ex::with_stacksize(rt::ex::thread_pool_scheduler{}, cls[x])) | rt::ex::then([&, grandchild] {
            measure(0);
            rt::tt::sync_wait(rt::ex::schedule(cur()) | rt::ex::then([&, grandchild] {
                measure(1);
                if (grandchild) rt::tt::sync_wait(rt::ex::schedule(cur()) | rt::ex::then([&] { measure(2); }));
            }));
        }));
        ++g->finished;
    });
    rt::stop();
    int n = 2 + grandchild;
    PMC_ASSERT(s.finished == 1 && ran == n, "task-lost", "%d of %d tasks ran", ran, n);
    for (int k = 0; k < n; ++k)
        PMC_ASSERT(real_size[k] >= configured && reported[k] == configured, "wrong-stack-size", "generation %d of a task family of stack class %d (children created with stack size 'current', %s priority) runs on a stack of %ld bytes (reports %ld), configured for the class: %ld", k, x, high ? "high" : "normal", real_size[k], reported[k], configured);
    pmc_outcome("x=%d high=%d", x, high);
}

int main(int argc, char** argv)
{
    static const char* sites = "thread_data::(set_state_tagged|restore_state|set_state|rebind|init)|set_thread_state|set_active_state|scheduling_loop|recycle_thread|cleanup_terminated|create_thread_object|interrupt_thread";
    static const char* focus = "F-addr: whole thread_data of every task; F-site (rmw, cas): state transitions, scheduling_loop, recycle/cleanup of thread objects, interrupt_thread";
    static const pmc_spec specs[] = {
        {"stacksize_current", stacksize_current_prog, 0, 1, 0.05, 0.05, 1, focus, sites, "rc"},
        {"recycle_across_stack_classes", recycle_classes_prog, 0, 1, 0.05, 0.05, 1, focus, sites, "rc"},
        {"canaries_small_2", canaries_prog<2, 0>, 1, 2, 0.3, 0.25, 1, focus, sites, "rc"},
        {"canaries_medium_2", canaries_prog<2, 1>, 1, 1, 0.1, 0.1, 1, focus, sites, "rc"},
        {"canaries_large_2", canaries_prog<2, 2>, 0, 1, 0.05, 0.1, 1, focus, sites, "rc"},
        {"canaries_huge_2", canaries_prog<2, 3>, 0, 1, 0.05, 0.1, 1, focus, sites, "rc"},
        {"canaries_small_3", canaries_prog<3, 0>, 1, 2, 0.15, 0.15, 1, focus, sites, "rc"},
        {"recycle_clean_start", recycle_prog, 1, 2, 0.3, 0.25, 1, focus, sites, "rc"},
        {"fp_control_state", fp_prog, 1, 1, 0.05, 0.05, 0, focus, sites, "rc"},
    };
    static const char* assumptions[] = {"sequentially consistent interleavings only", "2 worker threads; default stack sizes of the four classes; guard pages as configured by default",
        "migration patterns are the explorer's choice of which worker pops the re-queued task (stealing enabled)"};
    pmc_config cfg{};
    cfg.property_id = "C12";
    cfg.rule = "bodies {set identity/task data/stack + register canaries, two switches (yield or suspension) at call depth 0 or 3} x 4 stack classes x 2-3 tasks; recycling programs (predecessor leaves an unconsumed interruption, task data) x 1-2 successors x 1-2 workers (data choices) x all schedules within the deviation bound";
    cfg.assumptions = assumptions;
    cfg.n_assumptions = 3;
    cfg.warmup = rt::warmup;
    cfg.quick_budget_s = 110;
    cfg.thorough_budget_s = 900;
    return pmc_main(argc, argv, &cfg, specs, sizeof specs / sizeof specs[0]);
}
