#!/usr/bin/env python3
"""C09, secondary layer: Promela model of pika::barrier (models/barrier.pml) checked with Spin, bound to
the implementation by comparing event histories.
  1. conformance: the set of event histories of the real barrier (harness C09_barrier_conf under the pmc
     explorer, --dump-outcomes) is compared with the set of histories Spin enumerates from the model
     (-DHIST: the history is part of the state, so every history is reached exactly once and printed):
     equality for the configurations that pmc explores completely, inclusion (implementation in model)
     for the larger ones.  A mismatch means the model no longer describes the code: the model layer is
     dropped for this run (reported, exit 0) and the direct exploration parts of the check decide alone.
  2. verification: Spin checks the safety assertions of the model (nobody leaves phase k before all
     expected arrivals and the completion; completion once per phase, in order; no deadlock) for
     parameters beyond the direct search: up to 5 participants, 3 phases, arrive_and_drop, arbitrary
     start nodes, phase byte wrap-around.  A violation found in a conformant model is reported.
usage: c09_barrier_model.py --tier quick|thorough --evidence <file> --part <name> [--known k1,k2]"""
import json, os, re, shutil, subprocess, sys, tempfile, time

V = os.path.dirname(os.path.dirname(os.path.abspath(__file__)))
MODEL = os.path.join(V, "models", "barrier.pml")
TAG = os.environ.get("VERIF_BUILD_TAG", "")
CONF = os.path.join(V, "build", "h" + TAG, "C09_barrier_conf")


def sh(cmd, **kw):
    return subprocess.run(cmd, shell=isinstance(cmd, str), capture_output=True, text=True, **kw)


def spin_build(work, defs, extra_cc):
    r = sh(["spin", "-a"] + defs + [MODEL], cwd=work)
    if r.returncode or not os.path.exists(os.path.join(work, "pan.c")):
        raise RuntimeError("spin -a failed: " + r.stdout + r.stderr)
    r = sh(["gcc", "-O2", "-DSAFETY"] + extra_cc + ["-o", "pan", "pan.c"], cwd=work)
    if r.returncode:
        raise RuntimeError("gcc pan.c failed: " + r.stderr[-500:])


def model_histories(defs):
    with tempfile.TemporaryDirectory(prefix="c09m") as work:
        spin_build(work, ["-DHIST"] + defs, ["-DNOREDUCE", "-DMEMLIM=8000"])
        r = sh(["./pan", "-m100000", "-n"], cwd=work, timeout=900)
        if "errors: 0" not in r.stdout:
            raise RuntimeError("model error while enumerating histories: " + r.stdout[-800:])
        return {l.strip() for l in r.stdout.splitlines() if re.match(r"^[0-9]+[PD]", l)}


def impl_histories(spec, bound, budget):
    with tempfile.TemporaryDirectory(prefix="c09i") as work:
        out = os.path.join(work, "o.txt")
        r = sh([CONF, "--tier", "thorough", "--only", spec, "--bound", str(bound), "--budget", str(budget), "--dump-outcomes", out, "--replay-dir", os.path.join(V, "replays")], cwd=V)
        m = re.search(r"bound (-?\d+)/(\d+) completed, executions=(\d+).*frontier_left=(\d+)", r.stderr)
        if r.returncode != 0 or not m:
            return None, {"error": (r.stdout + r.stderr)[-600:], "rc": r.returncode}
        hs = {l.split("\t", 1)[1].strip() for l in open(out) if "\t" in l}
        return hs, {"bound_completed": int(m.group(1)), "executions": int(m.group(3)), "frontier_left": int(m.group(4))}


def main():
    tier, evidence, part, known = "quick", None, "barrier-model", set()
    a = sys.argv[1:]
    i = 0
    while i < len(a):
        if a[i] == "--tier": tier = a[i + 1]; i += 2
        elif a[i] == "--evidence": evidence = a[i + 1]; i += 2
        elif a[i] == "--part": part = a[i + 1]; i += 2
        elif a[i] == "--known": known = set(a[i + 1].split(",")); i += 2
        else: i += 1
    thorough = tier == "thorough"
    t0 = time.time()
    # (spec of C09_barrier_conf, model parameters, complete?, deviation bound, budget)
    conf = [
        ("n2_ph1", ["-DN=2", "-DPH=1"], True, 64, 60),
        ("n2_ph2_drop0", ["-DN=2", "-DPH=2", "-DDROPPER=0"], True, 64, 120),
        ("n2_ph2", ["-DN=2", "-DPH=2"], False, 6 if thorough else 4, 300 if thorough else 25),
        ("n3_ph1", ["-DN=3", "-DPH=1"], False, 4 if thorough else 2, 300 if thorough else 25),
        ("n3_ph1_drop1", ["-DN=3", "-DPH=1", "-DDROPPER=1"], False, 4 if thorough else 2, 300 if thorough else 25),
    ]
    conformance, conf_ok, impl_execs, matched = [], True, 0, 0
    for spec, defs, complete, bound, budget in conf:
        try:
            mh = model_histories(defs)
        except Exception as e:
            conformance.append({"config": spec, "error": str(e)[:500]})
            conf_ok = False
            continue
        ih, info = impl_histories(spec, bound, budget)
        if ih is None:
            conformance.append({"config": spec, "impl_error": info})
            conf_ok = False
            continue
        impl_execs += info["executions"]
        only_impl, only_model = sorted(ih - mh), sorted(mh - ih)
        full = complete and info["frontier_left"] == 0
        ok = not only_impl and (not full or not only_model)
        matched += len(ih & mh)
        conformance.append({"config": spec, "model_params": " ".join(defs), "model_histories": len(mh), "impl_histories": len(ih), "impl_executions": info["executions"],
                            "impl_bound_completed": info["bound_completed"], "impl_complete": full, "relation": "equal" if full else "implementation subset of model",
                            "only_in_implementation": only_impl[:2], "only_in_model": only_model[:2] if full else [], "ok": ok})
        print(f"c09-model[{spec}] model histories={len(mh)} implementation histories={len(ih)} ({info['executions']} executions, bound {info['bound_completed']}, complete={full}) -> {'ok' if ok else 'MISMATCH'}", file=sys.stderr)
        conf_ok = conf_ok and ok
    # ---- verification of the model
    verify = [
        ["-DN=2", "-DPH=3"], ["-DN=3", "-DPH=3"], ["-DN=3", "-DPH=3", "-DDROPPER=0"], ["-DN=3", "-DPH=3", "-DDROPPER=2", "-DPHASE0=252"],
        ["-DN=4", "-DPH=2", "-DANYSTART"], ["-DN=4", "-DPH=2", "-DDROPPER=1", "-DANYSTART"], ["-DN=4", "-DPH=3", "-DPHASE0=252"],
    ]
    if thorough:
        verify += [["-DN=4", "-DPH=3", "-DANYSTART"], ["-DN=4", "-DPH=3", "-DDROPPER=3", "-DANYSTART", "-DPHASE0=252"], ["-DN=5", "-DPH=2", "-DANYSTART"], ["-DN=5", "-DPH=2", "-DDROPPER=4"]]
    runs, states, transitions, violation = [], 0, 0, None
    for defs in verify:
        with tempfile.TemporaryDirectory(prefix="c09v") as work:
            try:
                spin_build(work, defs, ["-DCOLLAPSE", "-DMEMLIM=24000"])
                r = sh(["./pan", "-m200000"], cwd=work, timeout=1500)
            except Exception as e:
                runs.append({"params": " ".join(defs), "error": str(e)[:300]})
                continue
            m = re.search(r"errors: (\d+)", r.stdout)
            st = re.search(r"(\d+) states, stored", r.stdout)
            tr = re.search(r"(\d+) transitions", r.stdout)
            errs = int(m.group(1)) if m else -1
            complete = "Search not completed" not in r.stdout and "max search depth too small" not in r.stdout and errs == 0
            runs.append({"params": " ".join(defs), "errors": errs, "states": int(st.group(1)) if st else 0, "transitions": int(tr.group(1)) if tr else 0, "complete": complete})
            states += runs[-1]["states"]; transitions += runs[-1]["transitions"]
            print(f"c09-model[verify {' '.join(defs)}] errors={errs} states={runs[-1]['states']} complete={complete}", file=sys.stderr)
            if errs > 0 and violation is None:
                name = "barrier_model-" + "".join(d.replace("-D", "_") for d in defs)
                os.makedirs(os.path.join(V, "replays"), exist_ok=True)
                trail = os.path.join(V, "replays", f"C09-{name}.trail")
                if os.path.exists(os.path.join(work, "barrier.pml.trail")):
                    shutil.copy(os.path.join(work, "barrier.pml.trail"), trail)
                msg = next((l.strip() for l in r.stdout.splitlines() if "assertion violated" in l or "invalid end state" in l), "error")
                violation = ("barrier_model/" + "".join(defs), trail, msg, " ".join(defs))
    rc = 0
    if not conf_ok:
        print("MODEL-CONFORMANCE: models/barrier.pml does not describe the implementation any more (see evidence); the model layer is dropped, the direct exploration decides", file=sys.stderr)
    elif violation:
        key, trail, msg, params = violation
        if key in known:
            pass
        else:
            path = trail.replace(".trail", ".json")
            json.dump({"property": "C09", "spec": "barrier_model", "key": key, "model_params": params, "msg": msg, "trail": trail,
                       "how_to_replay": f"cd models && spin -a {params} barrier.pml && gcc -DSAFETY -o pan pan.c && cp {trail} barrier.pml.trail && spin -t -p {params} barrier.pml"}, open(path, "w"), indent=1)
            print(f"RAWVIOLATION property=C09 key={key} replay={path} msg=conformant model violates its safety assertions: {msg}")
            rc = 1
    wall = time.time() - t0
    if evidence:
        json.dump({
            "part": part, "property_id": "C09", "tier": tier, "engine": "spin + pmc-os conformance",
            "executions": impl_execs, "transitions": transitions, "distinct_traces": matched, "distinct_nontrivial": matched,
            "model_states": states, "model_histories_matched_by_implementation": matched,
            "exhaustive": rc == 0 and conf_ok and all(r.get("complete") for r in runs),
            "model_conformance": "ok" if conf_ok else "failed: model layer dropped",
            "rule": "Promela model of pika::barrier: every event history of the implementation (all interleavings for n=2; within the deviation bound for n=3) must be a history of the model and vice versa where the implementation search is complete; Spin then checks the model's safety assertions for N<=4 (thorough 5) participants, 2-3 phases, arrive_and_drop, arbitrary start nodes and phase-byte wrap-around",
            "violation": rc != 0, "exit": rc, "wall_s": round(wall, 2),
            "assumptions": ["model verification covers the model; it covers the implementation to the extent the history comparison binds them (equality on n=2 configurations, inclusion on n=3)", "sequentially consistent interleavings"],
            "samples": [json.dumps(c)[:400] for c in conformance[:3]],
            "conformance": conformance, "verification": runs,
            "specs": [{"name": "barrier_model", "focus": "Spin on models/barrier.pml + history comparison with C09_barrier_conf", "executions": impl_execs, "states": states, "transitions": transitions, "wall_s": round(wall, 2), "samples": []}],
            "known_findings_matched_total": {},
        }, open(evidence, "w"), indent=1)
    return rc


if __name__ == "__main__":
    sys.exit(main())
