// C09: latch, barrier, event, call_once release exactly when due.  pmc-rt (2 workers) + pmc-os.
#include "rt_common.h"
#include <pika/latch.hpp>
#include <pika/barrier.hpp>
#include <chrono>
#include <pika/synchronization/event.hpp>
#include <pika/synchronization/once.hpp>
#include <thread>
#include <stdexcept>

static int g_waiting, g_expected_done;
static const char* g_what = "";
static void on_stuck()
{
    if (g_waiting > 0 && g_expected_done)
        pmc_fail("waiter-stuck", "%d task(s) still blocked in %s although the release condition holds", g_waiting, g_what);
}

// ---- latch --------------------------------------------------------------------------------------
enum LOp { L_CD, L_AAW, L_WAIT, L_TRY };
template <int T, bool OS>
static void latch_prog()
{
    // T participants; first `c` of them arrive (count_down or arrive_and_wait), the rest wait/try
    int c = 1 + pmc_choose(T - 1 > 2 ? 2 : T - 1, 0);
    int op[T];
    for (int t = 0; t < T; ++t) op[t] = t < c ? pmc_choose(2, 0) : 2 + pmc_choose(2, 0);
    auto& l = *new pika::latch(c);
    pmc_watch(&l, sizeof l, "latch");
    g_waiting = 0; g_expected_done = 0; g_what = "latch::wait/arrive_and_wait";
    pmc_on_stuck(on_stuck);
    static int arrived, finished, try_true;
    arrived = finished = try_true = 0;
    auto body = [&l, c](int o) {
        switch (o)
        {
        case L_CD: ++arrived; if (arrived == c) g_expected_done = 1; l.count_down(1); break;
        case L_AAW:
            ++arrived; if (arrived == c) g_expected_done = 1;
            ++g_waiting; l.arrive_and_wait(); --g_waiting;
            PMC_ASSERT(arrived == c, "latch-early", "arrive_and_wait returned after %d of %d arrivals", arrived, c);
            break;
        case L_WAIT:
            ++g_waiting; l.wait(); --g_waiting;
            PMC_ASSERT(arrived == c, "latch-early", "wait returned after %d of %d arrivals", arrived, c);
            break;
        case L_TRY:
            if (l.try_wait()) { ++try_true; PMC_ASSERT(arrived == c, "latch-early", "try_wait true after %d of %d arrivals", arrived, c); }
            break;
        }
        ++finished;
    };
    if (OS)
    {
        pmc_focus_pthread(1);
        std::vector<std::thread> th;
        for (int t = 0; t < T; ++t) th.emplace_back([&, t] { body(op[t]); });
        for (auto& x : th) x.join();
    }
    else
    {
        rt::start();
        for (int t = 0; t < T; ++t) rt::spawn([&, t] { rt::watch_self(t == 0 ? "p0" : t == 1 ? "p1" : "p2"); body(op[t]); });
        rt::stop();
    }
    PMC_ASSERT(finished == T, "task-lost", "%d of %d participants finished", finished, T);
    PMC_ASSERT(l.try_wait(), "latch-not-zero", "latch count not zero after all arrivals");
    pmc_outcome("c=%d try_true=%d", c, try_true);
}

// ---- barrier ------------------------------------------------------------------------------------
struct BarState { int arrive[4]; int depart[4]; int completions; int expected[4]; int finished; };
static BarState* g_bar;
// PHASE0: value of the phase byte the barrier starts from (the byte advances by 2 per phase and wraps at
// 256: starting from 252 makes phases 0..2 cross the wrap-around, which would otherwise need 128 phases)
template <int P, int PHASES, bool OS, int PHASE0 = 0, int NFORMS = 2>
static void barrier_prog()
{
    static BarState b;
    b = BarState{};
    g_bar = &b;
    int form[P];
    for (int p = 0; p < P; ++p) form[p] = pmc_choose(NFORMS, 0);    // 0 arrive_and_wait, 1 arrive + wait(token), 2 arrive_and_wait(busy-wait timeout 100 us)
    int dropper = pmc_choose(P + 1, 0) - 1;                     // participant that drops in phase 0 (-1: nobody)
    int late = (OS && NFORMS > 2) ? pmc_choose(2, 0) : 0;       // the last participant arrives 1 ms late: a busy-wait of 100 us expires first
    for (int k = 0; k < PHASES; ++k) b.expected[k] = (k == 0 || dropper < 0) ? P : P - 1;
    auto completion = [] { pmc_point("in-completion"); ++g_bar->completions; };    // a completion function has a duration: nobody may be released while it runs
    auto& bar = *new pika::barrier<decltype(completion)>(P, completion);
    if (PHASE0)
    {
        bar.phase.store((pika::detail::barrier_phase_t) PHASE0);
        for (int n = 0; n < ((P + 1) >> 1); ++n)
            for (auto& t : bar.base.state[n].tickets) t.phase.store((pika::detail::barrier_phase_t) PHASE0);
    }
    pmc_watch(&bar, sizeof bar, "barrier");
    pmc_watch(bar.base.state.get(), sizeof(pika::detail::barrier_algorithm_base::state_t) * ((P + 1) >> 1), "tickets");
    auto body = [&bar, dropper, late](int p, int f) {
        for (int k = 0; k < PHASES; ++k)
        {
            if (late && k == 0 && p == P - 1) usleep(1000);
            if (k == 0 && p == dropper)
            {
                ++g_bar->arrive[0];
                bar.arrive_and_drop();
                return;
            }
            ++g_bar->arrive[k];
            if (f == 0) bar.arrive_and_wait();
            else if (f == 1) { auto tok = bar.arrive(); bar.wait(std::move(tok)); }
            else bar.arrive_and_wait(std::chrono::duration<double>(1e-4));    // busy-wait first; must still not leave before the phase completed
            ++g_bar->depart[k];
            PMC_ASSERT(g_bar->arrive[k] == g_bar->expected[k], "barrier-early", "participant %d left phase %d after %d of %d arrivals", p, k, g_bar->arrive[k], g_bar->expected[k]);
            PMC_ASSERT(g_bar->completions >= k + 1, "barrier-completion-late", "participant %d left phase %d before its completion function ran (%d completions)", p, k, g_bar->completions);
            PMC_ASSERT(g_bar->completions <= k + 2, "barrier-completion-twice", "completion function ran %d times by the time phase %d was left", g_bar->completions, k);
        }
    };
    if (OS)
    {
        std::vector<std::thread> th;
        for (int p = 0; p < P; ++p) th.emplace_back([&, p] { body(p, form[p]); ++g_bar->finished; });
        for (auto& x : th) x.join();
    }
    else
    {
        rt::start();
        for (int p = 0; p < P; ++p) rt::spawn([&, p] { rt::watch_self(p == 0 ? "p0" : p == 1 ? "p1" : "p2"); body(p, form[p]); ++g_bar->finished; });
        rt::stop();
    }
    PMC_ASSERT(b.finished == P, "task-lost", "%d of %d participants finished", b.finished, P);
    PMC_ASSERT(b.completions == PHASES, "barrier-completion-count", "completion function ran %d times in %d phases", b.completions, PHASES);
    pmc_outcome("dropper=%d completions=%d", dropper, b.completions);
}

// ---- event --------------------------------------------------------------------------------------
template <bool OS>
static void event_prog()
{
    int late_waiter = pmc_choose(2, 0);
    auto& ev = *new pika::experimental::event;
    pmc_watch(&ev, sizeof ev, "event");
    static int set_started, returned, finished;
    set_started = returned = finished = 0;
    g_waiting = 0; g_expected_done = 0; g_what = "event::wait";
    pmc_on_stuck(on_stuck);
    auto waiter = [&ev] {
        ++g_waiting; ev.wait(); --g_waiting;
        PMC_ASSERT(set_started, "event-early", "wait returned before set() was called");
        PMC_ASSERT(ev.occurred(), "event-early", "wait returned but occurred() is false");
        ++returned; ++finished;
    };
    auto setter = [&ev, late_waiter, waiter] {
        set_started = 1; g_expected_done = 1;
        ev.set();
        pmc_progress();
        if (late_waiter) waiter();    // future waiter: must not block
        else ++finished;
    };
    if (OS)
    {
        pmc_focus_pthread(1);
        std::thread a(waiter), b(waiter), c(setter);
        a.join(); b.join(); c.join();
    }
    else
    {
        rt::start();
        rt::spawn([&] { rt::watch_self("w0"); waiter(); });
        rt::spawn([&] { rt::watch_self("w1"); waiter(); });
        rt::spawn([&] { rt::watch_self("setter"); setter(); });
        rt::stop();
    }
    PMC_ASSERT(finished == 3, "task-lost", "%d of 3 bodies finished", finished);
    pmc_outcome("returned=%d", returned);
}

// ---- call_once ----------------------------------------------------------------------------------
template <int C>
static void once_prog()
{
    int throws_first = pmc_choose(2, 0);
    auto& flag = *new pika::once_flag;
    pmc_watch(&flag, sizeof flag, "once_flag");
    static int calls, body_done, in_body, exceptions, finished;
    calls = body_done = in_body = exceptions = finished = 0;
    g_waiting = 0; g_expected_done = 0; g_what = "call_once";
    pmc_on_stuck(on_stuck);
    rt::start();
    for (int c = 0; c < C; ++c)
        rt::spawn([&, c] {
            rt::watch_self(c == 0 ? "c0" : c == 1 ? "c1" : "c2");
            try
            {
                ++g_waiting;
                pika::call_once(flag, [&] {
                    ++in_body;
                    PMC_ASSERT(in_body == 1, "once-concurrent", "two callers inside the callable at once");
                    int n = ++calls;
                    pika::this_thread::yield();
                    --in_body;
                    if (throws_first && n == 1) throw std::runtime_error("first attempt fails");
                    body_done = 1;
                    g_expected_done = 1;
                });
                --g_waiting;
                PMC_ASSERT(body_done, "once-early-return", "call_once returned before the callable finished successfully");
            }
            catch (std::runtime_error const&) { --g_waiting; ++exceptions; }
            ++finished;
        });
    rt::stop();
    PMC_ASSERT(finished == C, "task-lost", "%d of %d callers finished", finished, C);
    PMC_ASSERT(body_done == 1 && calls == 1 + throws_first, "once-count", "callable ran %d times (expected %d), done=%d", calls, 1 + throws_first, body_done);
    PMC_ASSERT(exceptions == throws_first, "once-exception", "%d callers saw the exception (expected %d)", exceptions, throws_first);
    pmc_outcome("calls=%d exceptions=%d", calls, exceptions);
}

int main(int argc, char** argv)
{
    static const pmc_spec specs[] = {
        {"once_3", once_prog<3>, 1, 2, 0.1, 0.1, 1, "3 callers", nullptr, nullptr},
        {"once_2", once_prog<2>, 2, 3, 0.1, 0.05, 1, "F-addr: once_flag (status_, embedded event) + task state words", nullptr, nullptr},
        {"event_os", event_prog<true>, 2, 3, 0.05, 0.05, 1, "event on plain OS threads", nullptr, nullptr},
        {"event_tasks", event_prog<false>, 2, 3, 0.1, 0.1, 1, "F-addr: event (event_, spinlock, cv queue) + task state words", nullptr, nullptr},
        {"barrier_os_3_wrap", barrier_prog<3, 3, true, 252>, 1, 2, 0.05, 0.05, 1, "3 phases on OS threads with the phase byte starting at 252: the phases cross the 8-bit wrap-around", nullptr, nullptr},
        {"barrier_os_3", barrier_prog<3, 2, true, 0, 3>, 1, 2, 0.1, 0.1, 1, "barrier on plain OS threads (spin wait through sched_yield)", nullptr, nullptr},
        {"latch_os_3", latch_prog<3, true>, 2, 3, 0.05, 0.05, 1, "latch on plain OS threads; all pthread ops are points", nullptr, nullptr},
        {"barrier_2", barrier_prog<2, 2, false, 0, 3>, 2, 3, 0.15, 0.15, 1, "F-addr: barrier (phase, expected, expected_adjustment) + ticket array + task state words", nullptr, nullptr},
        {"latch_3", latch_prog<3, false>, 2, 3, 0.2, 0.2, 1, "F-addr: latch (counter_, spinlock, cv queue, notified_) + task state words", nullptr, nullptr},
        {"barrier_3", barrier_prog<3, 2, false>, 1, 2, 0.2, 0.25, 1, "barrier with 3 participants on 2 workers (non power of two, more participants than workers)", nullptr, nullptr},
    };
    static const char* assumptions[] = {"sequentially consistent interleavings only", "2 worker threads; 2-3 participants; 2 barrier phases"};
    pmc_config cfg{};
    cfg.property_id = "C09";
    cfg.rule = "participant op mixes (data choices: arrive forms, dropper, counts, throwing first attempt) x all schedules within the deviation bound";
    cfg.assumptions = assumptions;
    cfg.n_assumptions = 2;
    cfg.warmup = rt::warmup;
    cfg.quick_budget_s = 130;    // cheap specs first: unused budget is carried over to the later ones
    cfg.thorough_budget_s = 900;
    return pmc_main(argc, argv, &cfg, specs, sizeof specs / sizeof specs[0]);
}
