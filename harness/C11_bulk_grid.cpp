// C11 (part 1, seqx grid): bulk on the real thread pool for every n in [0, NMAX] x worker counts x
// integral shape types x throwing sets, executed on a live (uncontrolled) runtime, per-index counters;
// plus the chunking arithmetic at type boundaries ("very large values") through the real
// get_chunk_size with a watchdog.
#include "seqx.h"
#include <memory>
#include <string>
#include <vector>
#include <pika/init.hpp>
#include <pika/execution.hpp>
#include <atomic>
#include <cstdint>
#include <limits>
#include <stdexcept>
#include <vector>

namespace ex = pika::execution::experimental;
namespace tt = pika::this_thread::experimental;

struct Thrown { long idx; };

template <typename Shape>
static void run_one(Shape n, int workers, long throw_a, long throw_b, const char* tname)
{
    seqx::begin_case("bulk<%s> n=%lld workers=%d throwing={%ld,%ld}", tname, (long long) n, workers, throw_a, throw_b);
    ++seqx::g->transitions;
    std::vector<std::atomic<int>> calls((size_t) n + 4);
    std::atomic<int> in_flight{0}, total{0}, bad_index{0}, bad_value{0};
    int payload = 4711;
    bool got_value = false, got_error = false;
    long err_idx = -1;
    int completions = 0, value_seen = 0, calls_at_completion = -1, inflight_at_completion = -1;
    auto s = ex::transfer_just(ex::thread_pool_scheduler{}, payload) | ex::bulk(n, [&](Shape i, int& v) {
        ++in_flight;
        if ((long long) i < 0 || (unsigned long long) i >= (unsigned long long) n) ++bad_index;
        else ++calls[(size_t) i];
        if (v != 4711) ++bad_value;
        ++total;
        --in_flight;
        if ((long) i == throw_a || (long) i == throw_b) throw Thrown{(long) i};
    }) | ex::then([&](int v) { ++completions; value_seen = v; calls_at_completion = total; inflight_at_completion = in_flight; return v; });
    try
    {
        auto r = tt::sync_wait(std::move(s));
        got_value = true;
        (void) r;
    }
    catch (Thrown const& t) { got_error = true; err_idx = t.idx; }
    catch (...) { got_error = true; err_idx = -2; }
    bool should_throw = (throw_a >= 0 && (unsigned long long) throw_a < (unsigned long long) n) || (throw_b >= 0 && (unsigned long long) throw_b < (unsigned long long) n);
    SEQX_CHECK(bad_index == 0, "index-out-of-range", "f was called with an index outside [0,%lld)", (long long) n);
    SEQX_CHECK(bad_value == 0, "value-changed", "f saw a changed predecessor value");
    if (!should_throw)
    {
        SEQX_CHECK(got_value && !got_error, "completion", "bulk without throwing calls completed with %s", got_error ? "an error" : "nothing");
        for (size_t i = 0; i < (size_t) n; ++i) SEQX_CHECK(calls[i] == 1, "call-count", "f(%zu) was called %d times", i, (int) calls[i]);
        SEQX_CHECK(completions == 1 && value_seen == 4711, "completion", "receiver signalled %d times with value %d", completions, value_seen);
        SEQX_CHECK(calls_at_completion == (long long) n && inflight_at_completion == 0, "completion-early", "receiver signalled after %d of %lld calls (%d in flight)", calls_at_completion, (long long) n, inflight_at_completion);
    }
    else
    {
        SEQX_CHECK(got_error && !got_value && completions == 0, "error-completion", "a call threw but the receiver got %s", got_value ? "a value" : "no error");
        SEQX_CHECK(err_idx == throw_a || err_idx == throw_b, "error-identity", "the error delivered (index %ld) is not one of the thrown exceptions", err_idx);
        for (size_t i = 0; i < (size_t) n; ++i) SEQX_CHECK(calls[i] <= 1, "call-count", "f(%zu) was called %d times", i, (int) calls[i]);
        SEQX_CHECK(in_flight == 0, "completion-early", "error delivered while calls were still running");
    }
    ++seqx::g->states;
}

// values that are not trivially movable (a moved-from string / vector / unique_ptr is observably empty):
// they must reach every call and the receiver unchanged - also for n == 0
template <typename Shape>
static void run_values(Shape n, int workers, const char* tname)
{
    seqx::begin_case("bulk<%s> n=%lld workers=%d with string/vector/unique_ptr values", tname, (long long) n, workers);
    ++seqx::g->transitions;
    std::atomic<int> bad_value{0}, total{0};
    int completions = 0;
    bool recv_ok = false;
    auto s = ex::just(std::string(100, 'x'), std::vector<int>{1, 2, 3}, std::make_unique<int>(42)) | ex::continues_on(ex::thread_pool_scheduler{}) |
        ex::bulk(n, [&](Shape, std::string& a, std::vector<int>& b, std::unique_ptr<int>& c) {
            if (a.size() != 100 || b.size() != 3 || !c || *c != 42) ++bad_value;
            ++total;
        }) |
        ex::then([&](std::string a, std::vector<int> b, std::unique_ptr<int> c) {
            ++completions;
            recv_ok = a == std::string(100, 'x') && b == std::vector<int>{1, 2, 3} && c && *c == 42;
        });
    tt::sync_wait(std::move(s));
    SEQX_CHECK(bad_value == 0, "value-changed", "f saw changed predecessor values (string/vector/unique_ptr)");
    SEQX_CHECK(total == (long long) n, "call-count", "f was called %d times for n=%lld", (int) total, (long long) n);
    SEQX_CHECK(completions == 1 && recv_ok, "values-not-forwarded", "the receiver got %d completions; the forwarded string/vector/unique_ptr values are %s", completions, recv_ok ? "intact" : "changed (moved-from)");
    ++seqx::g->states;
}

template <typename Shape>
static void grid_for(const char* tname, long nmax, int workers)
{
    long lim = nmax;
    if ((long double) std::numeric_limits<Shape>::max() < lim) lim = (long) std::numeric_limits<Shape>::max();
    for (long n = 0; n <= lim; ++n)
    {
        run_one<Shape>((Shape) n, workers, -1, -1, tname);
        if (n <= 4) run_values<Shape>((Shape) n, workers, tname);
        if (n > 0 && n <= 40) { run_one<Shape>((Shape) n, workers, n - 1, -1, tname); run_one<Shape>((Shape) n, workers, 0, n / 2, tname); }
    }
}
static void live_grid(bool thorough, int workers)
{
    static const char* argv[] = {"C11_bulk_grid", nullptr};
    pika::init_params p;
    p.cfg = {"pika.os_threads=" + std::to_string(workers), "pika.bind=none"};
    pika::start(nullptr, 1, argv, p);
    long nmax = thorough ? 2048 : 300;
    grid_for<int>("int", nmax, workers);
    grid_for<unsigned>("unsigned", nmax, workers);
    // narrow shape types: every n up to max(Shape) for the 8-bit types; the top of the 16-bit ranges (the
    // last chunk's end, i_begin + chunk_size, does not fit the type there)
    grid_for<std::uint8_t>("uint8", 255, workers);
    grid_for<std::int8_t>("int8", 127, workers);
    grid_for<std::uint16_t>("uint16", thorough ? 600 : 40, workers);
    grid_for<std::int16_t>("int16", thorough ? 600 : 40, workers);
    for (long n : {65535l, 65534l, 65533l, 63489l, 63488l, 32769l}) run_one<std::uint16_t>((std::uint16_t) n, workers, -1, -1, "uint16");
    for (long n : {32767l, 32766l, 31745l, 31744l, 16385l}) run_one<std::int16_t>((std::int16_t) n, workers, -1, -1, "int16");
    grid_for<long long>("long long", thorough ? nmax : 64, workers);
    grid_for<unsigned long>("unsigned long", thorough ? nmax : 64, workers);
    grid_for<std::int64_t>("int64", nmax, workers);
    grid_for<std::uint64_t>("uint64", nmax, workers);
    grid_for<std::size_t>("size_t", thorough ? nmax : 64, workers);
    pika::finalize();
    pika::stop();
}

// ---- chunking arithmetic at type boundaries -------------------------------------------------------
// The real get_chunk_size (static, private) of the bulk receiver; op-state type named via connect.
struct NullRec
{
    PIKA_STDEXEC_RECEIVER_CONCEPT
    void set_value(int) && noexcept {}
    void set_error(std::exception_ptr) && noexcept {}
    void set_stopped() && noexcept {}
    constexpr ex::empty_env get_env() const& noexcept { return {}; }
};
template <typename Shape>
static void arithmetic_for(const char* tname)
{
    auto f = [](Shape, int&) {};
    using sender_t = decltype(ex::transfer_just(ex::thread_pool_scheduler{}, 1) | ex::bulk(Shape{}, f));
    using op_t = decltype(ex::connect(std::declval<sender_t>(), NullRec{}));
    using br = typename op_t::bulk_receiver;
    std::vector<unsigned long long> ns;
    unsigned long long mx = (unsigned long long) std::numeric_limits<Shape>::max();
    for (int k = 5; k < 64; ++k)
        for (long d = -1; d <= 1; ++d)
        {
            unsigned long long v = (1ull << k) + d;
            if (v <= mx) ns.push_back(v);
        }
    ns.push_back(mx);
    ns.push_back(mx - 1);
    for (unsigned threads : {1u, 2u, 3u, 4u, 7u, 8u, 16u})
        for (auto nv : ns)
        {
            seqx::begin_case("chunking<%s> n=%llu threads=%u (get_chunk_size, chunk count)", tname, nv, threads);
            ++seqx::g->transitions;
            Shape n = (Shape) nv;
            unsigned long long cs = br::get_chunk_size(threads, n);    // a call that never returns is caught by the watchdog
            SEQX_CHECK(cs >= 1, "chunk-size-zero", "get_chunk_size(%u, %llu) returned 0 ", threads, nv);
            // set_value computes num_chunks = (n + cs - 1) / cs in Shape and passes it to init_queue as uint32:
            unsigned long long num_chunks = nv / cs + (nv % cs != 0 ? 1 : 0);
            SEQX_CHECK(num_chunks <= 0xffffffffull, "chunk-count-truncated",
                "n=%llu threads=%u: chunk size %llu gives %llu chunks, which init_queue(uint32) truncates to %llu: indices from %llu on are never visited",
                nv, threads, cs, num_chunks, num_chunks & 0xffffffffull, (num_chunks & 0xffffffffull) * cs);
            // do_work_chunk: index * chunk_size and (index+1) * chunk_size are computed in Shape
            unsigned __int128 last_end = (unsigned __int128) num_chunks * cs;
            SEQX_CHECK(last_end >= nv && (unsigned __int128) (num_chunks - 1) * cs < nv, "chunk-cover", "chunks of size %llu x %llu do not tile [0,%llu)", cs, num_chunks, nv);
            SEQX_CHECK(num_chunks <= 16ull * threads, "chunk-count", "%llu chunks for %u threads", num_chunks, threads);
            ++seqx::g->states;
        }
}
static void arithmetic(bool)
{
    arithmetic_for<std::int32_t>("int32");
    arithmetic_for<std::uint32_t>("uint32");
    arithmetic_for<std::int64_t>("int64");
    arithmetic_for<std::uint64_t>("uint64");
    arithmetic_for<unsigned long>("unsigned long");
}

int main(int argc, char** argv)
{
    auto o = seqx::parse(argc, argv, "C11");
    o.hang_timeout_s = 10;
    std::vector<seqx::spec> specs = {
        {"grid_w1", [](bool t) { live_grid(t, 1); }, "all n<=300 (2048 thorough) x 7 shape types x throwing sets on a live 1-worker pool"},
        {"grid_w2", [](bool t) { live_grid(t, 2); }, "same on 2 workers"},
        {"grid_w3", [](bool t) { live_grid(t, 3); }, "same on 3 workers"},
        {"grid_w4", [](bool t) { live_grid(t, 4); }, "same on 4 workers"},
        {"grid_w16", [](bool t) { live_grid(t, 16); }, "same on 16 workers"},
        {"chunk_arithmetic", arithmetic, "real get_chunk_size at 2^k-1, 2^k, 2^k+1 and max(Shape) for 5 shape types x 7 thread counts; chunk count must fit init_queue's uint32"},
    };
    return seqx::main_loop(o, specs,
        "grid: every n in [0,300] (thorough 2048) x workers {1,2,3,4,16} x 7 integral shape types (int, unsigned, long long, unsigned long, int64, uint64, size_t) x throwing sets {none, {n-1}, {0,n/2}} executed through the real bulk on a live runtime; arithmetic: real get_chunk_size on boundary shapes with a hang watchdog",
        {"the grid runs on a free-running runtime: it enumerates inputs, not schedules (the pmc part enumerates schedules)", "the very-large-n region is checked at the chunking-arithmetic level only"});
}
