// C20: MPI requests complete their sender exactly once, after the transfer.  pmc-rt on the MPI-enabled
// instrumented build; the MPI functions pika polls (MPI_Test, MPI_Testany, MPI_Testsome, ...) are
// mocked in this executable: a mock request stays pending until the explorer answers "complete".
#include "rt_common.h"
#include <malloc.h>
#include <pika/mpi.hpp>
#include <mpi.h>
#include <cstring>

namespace mpi = pika::mpi::experimental;
namespace ex = rt::ex;

// ---- mock MPI -----------------------------------------------------------------------------------------
struct MockReq
{
    unsigned magic = 0x4D50;
    int* buffer = nullptr;
    int value = 0;
    int complete = 0, polls = 0, idx = 0;
    int held = 0;    // harness-controlled: cannot complete yet (no deviation involved)
    int pending_polls = 0;    // harness-controlled: the first polls find the request pending (no deviation involved)
    int persistent = 0, inactive = 0;    // persistent request (MPI_Send_init/Recv_init + MPI_Start): completion leaves the handle in place, inactive
};
static MockReq g_reqs[48];
static int g_nreq = 0;
static int g_pending_answers = 0;
// "slow MPI call": the next g_slow_calls test calls stay inside MPI for a while (the calling thread yields a
// few times); g_in_test tells the harness that the polling thread is inside such a call right now
static int g_slow_calls = 0, g_in_test = 0;
static void slow_call()
{
    if (g_slow_calls <= 0) return;
    --g_slow_calls;
    g_in_test = 1;
    for (int i = 0; i < 3; ++i) sched_yield();
    g_in_test = 0;
}    // "still pending" answers given so far (each costs one deviation)
static bool is_mock(MPI_Request r) { for (int i = 0; i < g_nreq; ++i) if ((void*) r == (void*) &g_reqs[i]) return true; return false; }
static MPI_Request mock_start(int* buffer, int value)
{
    MockReq& m = g_reqs[g_nreq];
    m = MockReq{};
    m.buffer = buffer;
    m.value = value;
    m.idx = g_nreq++;
    return (MPI_Request) &m;
}
// one poll of a pending request: the explorer chooses between "complete now" (default) and "pending"
static bool mock_poll(MockReq* m)
{
    ++m->polls;
    if (m->held) return false;
    if (m->pending_polls > 0) { --m->pending_polls; return false; }
    int pending = pmc_choose(2, 1);    // alternative 1 = still pending, costs one deviation
    if (pending) { ++g_pending_answers; return false; }
    *m->buffer = m->value;             // the transfer completes: data becomes visible now
    m->complete = 1;
    if (m->persistent) m->inactive = 1;
    pmc_progress();
    return true;
}
extern "C" {
int MPI_Initialized(int* flag) { *flag = 1; return MPI_SUCCESS; }
int MPI_Finalized(int* flag) { *flag = 0; return MPI_SUCCESS; }
int MPI_Init_thread(int*, char***, int, int* provided) { *provided = MPI_THREAD_MULTIPLE; return MPI_SUCCESS; }
int MPI_Finalize(void) { return MPI_SUCCESS; }
int MPI_Comm_test_inter(MPI_Comm, int* flag) { *flag = 0; return MPI_SUCCESS; }    // libmpi_cxx's static initialisers
int MPI_Comm_rank(MPI_Comm, int* r) { *r = 0; return MPI_SUCCESS; }
int MPI_Comm_size(MPI_Comm, int* s) { *s = 1; return MPI_SUCCESS; }
int MPI_Get_processor_name(char* n, int* len) { strcpy(n, "mock"); *len = 4; return MPI_SUCCESS; }
int MPI_Error_string(int, char* s, int* len) { strcpy(s, "mock error"); *len = 10; return MPI_SUCCESS; }
int MPI_Comm_create_errhandler(MPI_Comm_errhandler_function*, MPI_Errhandler* e) { *e = MPI_ERRHANDLER_NULL; return MPI_SUCCESS; }
int MPI_Comm_set_errhandler(MPI_Comm, MPI_Errhandler) { return MPI_SUCCESS; }
int MPI_Errhandler_free(MPI_Errhandler*) { return MPI_SUCCESS; }
int MPI_Test(MPI_Request* req, int* flag, MPI_Status*)
{
    if (*req == MPI_REQUEST_NULL) { *flag = 1; return MPI_SUCCESS; }
    if (!is_mock(*req)) pmc_fail("harness", "MPI_Test on an unknown request");
    MockReq* m = (MockReq*) *req;
    if (m->persistent && m->inactive) { *flag = 1; return MPI_SUCCESS; }    // inactive handle: "complete", empty status
    if (mock_poll(m)) { if (!m->persistent) *req = MPI_REQUEST_NULL; *flag = 1; }
    else *flag = 0;
    return MPI_SUCCESS;
}
// An MPI call takes time: the polling thread can be pre-empted inside it (a scheduling point at its entry).
// If the request array is modified or re-allocated meanwhile (it must not be: pika either polls under its
// lock or from the only thread that owns the array), the mock sees values that are no requests; freed
// memory is filled with a pattern (M_PERTURB) so that this shows up deterministically.
int MPI_Testany(int count, MPI_Request reqs[], int* index, int* flag, MPI_Status*)
{
    if (count > 0) { pmc_point("MPI_Testany"); slow_call(); }
    bool any_active = false;
    for (int i = 0; i < count; ++i)
    {
        if (reqs[i] == MPI_REQUEST_NULL) continue;
        if (is_mock(reqs[i]) && ((MockReq*) reqs[i])->persistent && ((MockReq*) reqs[i])->inactive) continue;    // inactive handles are ignored
        any_active = true;
        if (!is_mock(reqs[i])) pmc_fail("request-array-corrupted", "MPI_Testany: entry %d of %d in the request array is not a request (the array was modified or freed while it was being polled)", i, count);
        if (mock_poll((MockReq*) reqs[i])) { if (!((MockReq*) reqs[i])->persistent) reqs[i] = MPI_REQUEST_NULL; *index = i; *flag = 1; return MPI_SUCCESS; }
    }
    *flag = any_active ? 0 : 1;
    *index = MPI_UNDEFINED;
    return MPI_SUCCESS;
}
int MPI_Testsome(int incount, MPI_Request reqs[], int* outcount, int indices[], MPI_Status*)
{
    if (incount > 0) { pmc_point("MPI_Testsome"); slow_call(); }
    bool any_active = false;
    int n = 0;
    for (int i = 0; i < incount; ++i)
    {
        if (reqs[i] == MPI_REQUEST_NULL) continue;
        if (is_mock(reqs[i]) && ((MockReq*) reqs[i])->persistent && ((MockReq*) reqs[i])->inactive) continue;    // inactive handles are ignored
        any_active = true;
        if (!is_mock(reqs[i])) pmc_fail("request-array-corrupted", "MPI_Testsome: entry %d of %d in the request array is not a request (the array was modified or freed while it was being polled)", i, incount);
        if (mock_poll((MockReq*) reqs[i])) { if (!((MockReq*) reqs[i])->persistent) reqs[i] = MPI_REQUEST_NULL; indices[n++] = i; }
    }
    *outcount = any_active ? n : MPI_UNDEFINED;
    return MPI_SUCCESS;
}
}

// ---- harness --------------------------------------------------------------------------------------------
struct St
{
    int signalled[48] = {0}, ok_data[48] = {0}, complete_at_signal[48] = {0};
    int finished = 0, nreq = 0;
};
static St* g;
static void on_stuck()
{
    pmc_fail("lost-completion", "runtime quiescent: %d request(s) outstanding, receivers signalled %d/%d; mock complete flags %d %d", g->nreq, g->signalled[0], g->signalled[1], g_reqs[0].complete, g_reqs[1].complete);
}
static const int modes_all[] = {0, 1, 2, 3, 4, 5, 6, 7, 8, 9, 10, 11, 12, 13, 14, 15, 16, 17, 18, 19, 20, 21, 22, 23, 24, 25, 26, 27, 28, 29, 30, 31};

static const int modes_pool_subset[] = {9, 13, 17, 21, 25, 29, 30, 10};    // request-inline modes with / without inline completion, the default, one more
template <int NREQ, int POOL, int MODESET = 0>
static void mpi_prog()
{
    static St s;
    s = St{};
    g = &s;
    g_nreq = 0;
    g_pending_answers = 0;
    g_slow_calls = MODESET == 1 ? 2 : 0;
    g_in_test = 0;
    static int g_noneager;
    g_noneager = MODESET ? 1 : pmc_choose(2, 0);    // 1: the eager test right after the MPI call finds the request pending (no deviation)
    static const int modes_plain_subset[] = {30, 10, 18, 2};    // the default and three more multi-threaded polling modes
    int mode = MODESET == 2 ? modes_plain_subset[pmc_choose(4, 0)] : MODESET ? modes_pool_subset[pmc_choose(8, 0)] : modes_all[pmc_choose(32, 0)];
    s.nreq = NREQ;
    static int buf[4];
    for (int i = 0; i < 4; ++i) buf[i] = -1;
    pmc_on_stuck(on_stuck);
    rt::config c;
    c.workers = 2;
    if (POOL) c.rp_callback = [](pika::resource::partitioner& rp, pika::program_options::variables_map const&) { mpi::detail::create_pool(rp, "", mpi::polling_pool_creation_mode::mode_force_create); };
    if (POOL) c.workers = 3;
    rt::start(c);
    mpi::detail::set_completion_mode(mode);
    {
        mpi::enable_polling ep(mpi::exception_mode::no_handler);
        for (int i = 0; i < NREQ; ++i)
            rt::spawn([&, i] {
                rt::watch_self(i ? "req1" : "req0");
                // MODESET specs: the first poll (the eager test right after the call) finds the request pending
                // at no cost, so that it is queued for the polling thread
                auto snd = mpi::transform_mpi(ex::just(&buf[i], 100 + i), [](int* b, int v, MPI_Request* r) { *r = mock_start(b, v); if (g_noneager) ((MockReq*) *r)->pending_polls = 1; return MPI_SUCCESS; });
                rt::tt::sync_wait(std::move(snd) | ex::then([i]() {
                    ++g->signalled[i];
                    // find this request: requests are numbered in start order, buffers identify them
                    for (int k = 0; k < g_nreq; ++k)
                        if (g_reqs[k].buffer == &buf[i]) g->complete_at_signal[i] = g_reqs[k].complete;
                    g->ok_data[i] = buf[i] == 100 + i;
                    pmc_progress();
                }));
                ++g->finished;
            });
        pika::wait();    // must not return while a request is in flight
        for (int i = 0; i < NREQ; ++i)
            PMC_ASSERT(s.signalled[i] == 1, "wait-returned-early", "pika::wait() returned while request %d was still in flight (receiver signalled %d times, mock complete=%d)", i, s.signalled[i], g_nreq > i ? g_reqs[i].complete : -1);
    }
    rt::stop();
    for (int i = 0; i < NREQ; ++i)
    {
        PMC_ASSERT(s.signalled[i] == 1, "signal-count", "receiver of request %d signalled %d times (mode %d)", i, s.signalled[i], mode);
        PMC_ASSERT(s.complete_at_signal[i] == 1, "signalled-before-complete", "receiver of request %d signalled before MPI reported the request complete (mode %d)", i, mode);
        PMC_ASSERT(s.ok_data[i] == 1, "data-not-visible", "received data not visible to the continuation of request %d (mode %d)", i, mode);
    }
    PMC_ASSERT(s.finished == NREQ, "task-lost", "%d of %d tasks finished", s.finished, NREQ);
    pmc_outcome("mode=%d pending_answers=%d pool_enabled=%d", mode, g_pending_answers, (int) mpi::detail::get_pool_enabled());
}

// many outstanding requests: the first N-1 are held back by the harness until the last one has
// completed, so a completion arrives at a high position of pika's polling vector while the low
// positions are still pending (pika tests the vector in chunks)
template <int N>
static void many_prog()
{
    static St s;
    s = St{};
    g = &s;
    g_nreq = 0;
    g_pending_answers = 0;
    static const int modes[] = {30, 10, 18, 31, 26, 2};
    int mode = modes[pmc_choose(6, 0)];
    s.nreq = N;
    static int buf[48];
    for (int i = 0; i < 48; ++i) buf[i] = -1;
    static int started;
    started = 0;
    pmc_on_stuck(on_stuck);
    rt::config c;
    c.workers = 2;
    rt::start(c);
    mpi::detail::set_completion_mode(mode);
    {
        mpi::enable_polling ep(mpi::exception_mode::no_handler);
        for (int i = 0; i < N; ++i)
            rt::spawn([&, i] {
                // start the requests in index order so that request i sits at position i
                int guard = 0;
                while (started < i && ++guard < 20000) pika::this_thread::yield();
                auto snd = mpi::transform_mpi(ex::just(&buf[i], 100 + i, i), [](int* b, int v, int idx, MPI_Request* r) {
                    *r = mock_start(b, v);
                    ((MockReq*) *r)->held = idx < N - 1;
                    ++started;
                    return MPI_SUCCESS;
                });
                rt::tt::sync_wait(std::move(snd) | ex::then([i]() {
                    ++g->signalled[i];
                    for (int k = 0; k < g_nreq; ++k)
                        if (g_reqs[k].buffer == &buf[i]) g->complete_at_signal[i] = g_reqs[k].complete;
                    g->ok_data[i] = buf[i] == 100 + i;
                    if (!g->complete_at_signal[i]) pmc_fail("signalled-before-complete", "receiver of request %d was signalled although MPI has not reported that request complete (%d requests outstanding)", i, N);
                    if (i == N - 1) for (int k = 0; k < g_nreq; ++k) g_reqs[k].held = 0;    // release the others
                    pmc_progress();
                }));
                ++g->finished;
            });
        pika::wait();
    }
    rt::stop();
    for (int i = 0; i < N; ++i)
    {
        PMC_ASSERT(s.signalled[i] == 1, "signal-count", "receiver of request %d signalled %d times (mode %d, %d requests)", i, s.signalled[i], mode, N);
        PMC_ASSERT(s.complete_at_signal[i] == 1 && s.ok_data[i] == 1, "signalled-before-complete", "request %d: complete-at-signal %d, data ok %d", i, s.complete_at_signal[i], s.ok_data[i]);
    }
    pmc_outcome("mode=%d", mode);
}

// detached request: nothing but the MPI request itself keeps the runtime busy (the launching task ends
// right after start_detached); pika::wait() must not return before the continuation has run
static void detached_prog()
{
    static St s;
    s = St{};
    g = &s;
    g_nreq = 0;
    g_pending_answers = 0;
    int mode = modes_all[pmc_choose(32, 0)];
    int hold = pmc_choose(2, 0);    // 1: the first two polls find the request pending (it does not complete eagerly; no deviation)
    s.nreq = 1;
    static int buf[4];
    for (int i = 0; i < 4; ++i) buf[i] = -1;
    static int cont_entered, g_hold;
    cont_entered = 0;
    g_hold = hold;
    pmc_on_stuck(on_stuck);
    rt::config c;
    c.workers = 2;
    rt::start(c);
    mpi::detail::set_completion_mode(mode);
    {
        mpi::enable_polling ep(mpi::exception_mode::no_handler);
        rt::spawn([&] {
            auto snd = mpi::transform_mpi(ex::just(&buf[0], 100), [](int* b, int v, MPI_Request* r) { *r = mock_start(b, v); ((MockReq*) *r)->pending_polls = g_hold ? 2 : 0; return MPI_SUCCESS; });
            ex::start_detached(std::move(snd) | ex::then([]() {
                cont_entered = 1;
                pmc_point("continuation-entered");
                for (int k = 0; k < g_nreq; ++k)
                    if (g_reqs[k].buffer == &buf[0]) g->complete_at_signal[0] = g_reqs[k].complete;
                g->ok_data[0] = buf[0] == 100;
                ++g->signalled[0];
                pmc_progress();
            }));
            ++g->finished;
        });
        pika::wait();
        PMC_ASSERT(s.signalled[0] == 1, "wait-returned-early", "pika::wait() returned while the detached request was still in flight (continuation entered %d, finished %d, mock complete=%d, mode %d)", cont_entered, s.signalled[0], g_nreq > 0 ? g_reqs[0].complete : -1, mode);
    }
    rt::stop();
    PMC_ASSERT(s.signalled[0] == 1, "signal-count", "receiver of the detached request signalled %d times (mode %d)", s.signalled[0], mode);
    PMC_ASSERT(s.complete_at_signal[0] == 1 && s.ok_data[0] == 1, "signalled-before-complete", "detached request: complete-at-signal %d, data ok %d (mode %d)", s.complete_at_signal[0], s.ok_data[0], mode);
    pmc_outcome("mode=%d hold=%d", mode, hold);
}

// The non-blocking MPI call itself fails (returns an error code; the error handler is MPI_ERRORS_RETURN or
// pika's own): the sender completes exactly once, with an error.  null_request: what the failed call leaves in
// the request (MPI leaves it undefined: MPI_REQUEST_NULL, or a handle that tests as complete / as pending).
struct CountingReceiver
{
    PIKA_STDEXEC_RECEIVER_CONCEPT
    int* counts;    // [0] value, [1] error, [2] stopped, [3] alive
    void hit(int k) const
    {
        if (!counts[3]) pmc_fail("signal-after-destroy", "a completion signal arrived after the operation state was destroyed");
        if (counts[0] + counts[1] + counts[2] != 0) pmc_fail("signal-count", "the receiver of a failed MPI call was signalled a second time (value %d, error %d, stopped %d so far)", counts[0], counts[1], counts[2]);
        ++counts[k];
        pmc_progress();
    }
    template <typename... Ts> void set_value(Ts&&...) && noexcept { hit(0); }
    void set_error(std::exception_ptr) && noexcept { hit(1); }
    void set_stopped() && noexcept { hit(2); }
    constexpr ex::empty_env get_env() const& noexcept { return {}; }
};
static void failing_call_prog()
{
    static St s;
    s = St{};
    g = &s;
    g_nreq = 0;
    g_pending_answers = 0;
    static const int modes[] = {30, 10, 18, 31, 26, 2, 0, 1};
    int mode = modes[pmc_choose(8, 0)];
    static int leftover;
    leftover = pmc_choose(3, 0);    // 0: MPI_REQUEST_NULL, 1: a handle that tests complete, 2: a handle that first tests pending
    static int counts[4], buf[1];
    counts[0] = counts[1] = counts[2] = 0;
    counts[3] = 1;
    pmc_on_stuck(on_stuck);
    rt::config c;
    c.workers = 2;
    rt::start(c);
    mpi::detail::set_completion_mode(mode);
    {
        mpi::enable_polling ep(mpi::exception_mode::no_handler);
        rt::spawn([&] {
            auto snd = mpi::transform_mpi(ex::just(&buf[0], 100), [](int* b, int v, MPI_Request* r) {
                if (leftover == 0) *r = MPI_REQUEST_NULL;
                else { *r = mock_start(b, v); ((MockReq*) *r)->pending_polls = leftover == 2 ? 1 : 0; }
                return MPI_ERR_OTHER;
            });
            {
                auto op = ex::connect(std::move(snd), CountingReceiver{counts});
                ex::start(op);
                // the call may be made on another task (modes without the inline-request flag transfer first)
                for (int k = 0; k < 3000 && counts[0] + counts[1] + counts[2] == 0; ++k) pika::this_thread::suspend(pika::threads::detail::thread_schedule_state::pending, "C20 failing call");
                for (int k = 0; k < 6; ++k) pika::this_thread::suspend(pika::threads::detail::thread_schedule_state::pending, "C20 failing call");
                PMC_ASSERT(counts[0] + counts[1] + counts[2] == 1, "signal-count", "failed MPI call: %d completion signals after start (value %d, error %d, stopped %d; mode %d)", counts[0] + counts[1] + counts[2], counts[0], counts[1], counts[2], mode);
                counts[3] = 0;
            }
            ++g->finished;
        });
        pika::wait();
    }
    rt::stop();
    PMC_ASSERT(counts[1] == 1 && counts[0] == 0 && counts[2] == 0, "wrong-channel", "a non-blocking MPI call that returned an error code completed with value %d / error %d / stopped %d (mode %d)", counts[0], counts[1], counts[2], mode);
    PMC_ASSERT(s.finished == 1, "task-lost", "task did not finish");
    pmc_outcome("mode=%d leftover=%d", mode, leftover);
}

// A persistent request (MPI_Recv_init + MPI_Start, started through transform_mpi) is started, completed and started
// again: MPI leaves the handle of a completed persistent request in the array it tested (inactive), so the slot
// must be retired by pika itself; every start signals its receiver exactly once
static void persistent_prog()
{
    static St s;
    s = St{};
    g = &s;
    g_nreq = 0;
    g_pending_answers = 0;
    static const int modes[] = {30, 10, 18, 31, 26, 2};
    int mode = modes[pmc_choose(6, 0)];
    static int buf[1], rounds_done;
    buf[0] = -1;
    rounds_done = 0;
    s.nreq = 1;
    pmc_on_stuck(on_stuck);
    rt::config c;
    c.workers = 2;
    rt::start(c);
    mpi::detail::set_completion_mode(mode);
    {
        mpi::enable_polling ep(mpi::exception_mode::no_handler);
        rt::spawn([&] {
            rt::watch_self("req0");
            for (int round = 0; round < 3; ++round)
            {
                int before = g->signalled[0];
                auto snd = mpi::transform_mpi(ex::just(&buf[0], 100 + round), [](int* b, int v, MPI_Request* r) {
                    // MPI_Start on the one persistent request: same handle every round
                    if (g_nreq == 0) mock_start(b, v);
                    MockReq& m = g_reqs[0];
                    m.persistent = 1; m.inactive = 0; m.complete = 0; m.value = v;
                    m.pending_polls = 1;    // not complete at the eager test: it goes to the polling vectors
                    *r = (MPI_Request) &m;
                    return MPI_SUCCESS;
                });
                rt::tt::sync_wait(std::move(snd) | ex::then([round]() {
                    ++g->signalled[0];
                    g->complete_at_signal[0] = g_reqs[0].complete;
                    g->ok_data[0] = buf[0] == 100 + round;
                    pmc_progress();
                }));
                PMC_ASSERT(g->signalled[0] == before + 1, "signal-count", "start %d of the persistent request: its receiver was signalled %d times", round + 1, g->signalled[0] - before);
                PMC_ASSERT(g->complete_at_signal[0] == 1 && g->ok_data[0] == 1, "signalled-before-complete", "start %d of the persistent request: complete-at-signal %d, data ok %d", round + 1, g->complete_at_signal[0], g->ok_data[0]);
                ++rounds_done;
            }
            ++g->finished;
        });
        pika::wait();
        PMC_ASSERT(rounds_done == 3, "wait-returned-early", "pika::wait() returned after %d of 3 starts of the persistent request had completed", rounds_done);
    }
    rt::stop();
    PMC_ASSERT(s.signalled[0] == 3 && s.finished == 1, "signal-count", "3 starts of a persistent request, receiver signalled %d times", s.signalled[0]);
    pmc_outcome("mode=%d", mode);
}

int main(int argc, char** argv)
{
    static const char* sites = "mpi_polling|transform_mpi|mpi_helpers|global_activity_count";
    static const char* focus = "F-site: all atomics of async_mpi (polling request vector lock, in-flight counters, completion hand-off); data choices: every poll answer of the mock MPI (pending costs one deviation); F-addr: task state words";
    static const pmc_spec specs[] = {
        {"one_request", mpi_prog<1, 0>, 1, 2, 0.25, 0.2, 1, focus, sites, nullptr},
        {"one_request_polling_pool", mpi_prog<1, 1>, 1, 1, 0.2, 0.15, 1, focus, sites, nullptr},
        {"two_requests", mpi_prog<2, 0>, 1, 2, 0.2, 0.3, 1, focus, sites, nullptr},
        {"two_requests_polling_pool", mpi_prog<2, 1, 1>, 1, 1, 0.3, 0.2, 1, "two requests with a dedicated polling pool (8 completion modes): one worker appends a request while the pool thread is inside an MPI test call", sites, nullptr},
        {"requests_plain_accesses", mpi_prog<3, 0, 2>, 1, 2, 0.3, 0.2, 1, "three requests polled by both workers; besides the atomics, every plain load and store of compact_vectors / the request and callback vectors in the polling function is a scheduling point (the polling module is built with memory-access instrumentation): the vectors are plain data that only the polling lock protects", sites, nullptr, "compact_vectors|poll_multithreaded"},
        {"detached_request", detached_prog, 1, 2, 0.2, 0.2, 1, focus, sites, nullptr},
        {"failing_call", failing_call_prog, 1, 2, 0.1, 0.1, 1, "the MPI call itself returns an error code: exactly one completion, an error", sites, nullptr},
        {"persistent_request", persistent_prog, 1, 2, 0.1, 0.1, 1, "a persistent request started three times (the completed handle stays in the tested array, inactive)", sites, nullptr},
        {"many_requests_34", many_prog<34>, 0, 1, 0.1, 0.2, 0, "34 outstanding requests, the first 33 held back until the last one has completed (chunked testing of the polling vector)", sites, nullptr},
    };
    static const char* assumptions[] = {"sequentially consistent interleavings only", "MPI is mocked: requests created by the harness, MPI_Test/Testany/Testsome answered by the explorer; real OpenMPI timing is not exercised",
        "completion modes 0-31 (the MPIX continuation modes need an MPI extension that is not present)"};
    mallopt(M_PERTURB, 0xA5);    // freed memory is overwritten: a re-allocated request array cannot look valid
    pmc_config cfg{};
    cfg.property_id = "C20";
    cfg.rule = "completion mode (all 32 flag combinations, data choice) x 1-2 outstanding requests (awaited by tasks, or detached with pika::wait as the only waiter) x polling pool on/off x every poll answer of the mock MPI (pending/complete) x all schedules within the deviation bound";
    cfg.assumptions = assumptions;
    cfg.n_assumptions = 3;
    cfg.warmup = rt::warmup;
    cfg.quick_budget_s = 140;
    cfg.thorough_budget_s = 900;
    cfg.exec_timeout_s = 30;
    cfg.free_block_bound = 2;
    return pmc_main(argc, argv, &cfg, specs, sizeof specs / sizeof specs[0]);
}
