// C17 (part 2): lock-free deque (Michael's, 128-bit anchor CAS) and the queue back-ends built on it
// and on ConcurrentQueue: every element taken exactly once, nothing invented, quiescent pop succeeds,
// per-end order in sequential use.
#include "pmc.h"
#include <pika/config.hpp>
#include <pika/concurrency/deque.hpp>
#include <pika/schedulers/lockfree_queue_backends.hpp>
#include <thread>
#include <vector>
#include <deque>
#include <cstdio>

using dq_t = pika::concurrency::detail::deque<int>;

enum Op { PUSH_L, PUSH_R, POP_L, POP_R };
static const char* opn[] = {"push_left", "push_right", "pop_left", "pop_right"};

struct Ledger
{
    std::vector<int> pushed, popped;
    void check(dq_t& q)
    {
        // drain sequentially: "a pop on a non-empty quiescent container succeeds"
        std::vector<int> count(64, 0);
        for (int v : pushed) { PMC_ASSERT(v > 0 && v < 64, "harness", "bad value"); ++count[v]; }
        for (int v : popped)
        {
            PMC_ASSERT(v > 0 && v < 64 && count[v] > 0, "invented-or-duplicate", "pop returned %d which was not (or no longer) in the container", v);
            --count[v];
        }
        int remaining = 0;
        for (int c : count) remaining += c;
        for (int i = 0; i < remaining; ++i)
        {
            int v = -1;
            bool ok = (i & 1) ? q.pop_right(v) : q.pop_left(v);
            PMC_ASSERT(ok, "quiescent-pop-failed", "%d elements should remain but pop failed", remaining - i);
            PMC_ASSERT(v > 0 && v < 64 && count[v] > 0, "invented-or-duplicate", "drain returned %d which was not (or no longer) in the container", v);
            --count[v];
        }
        int v = -1;
        PMC_ASSERT(!q.pop_left(v) && !q.pop_right(v) && q.empty(), "not-empty-after-drain", "container not empty after everything was taken (got %d)", v);
    }
};

// concurrent: initial content 0..2 elements, T threads x OPS ops each, op words by data choice
template <int T, int OPS, int ALPHA>
static void dq_concurrent()
{
    int init = pmc_choose(3, 0);
    int ops[T][OPS];
    // threads are symmetric: enumerate op words as a non-decreasing sequence of word numbers
    int nwords = 1;
    for (int o = 0; o < OPS; ++o) nwords *= ALPHA;
    int prev = 0;
    for (int t = 0; t < T; ++t)
    {
        int w = prev + pmc_choose(nwords - prev, 0);
        prev = w;
        for (int o = 0; o < OPS; ++o) { ops[t][o] = w % ALPHA; w /= ALPHA; }
    }
    dq_t q(8);
    Ledger L;
    int next = 1;
    for (int i = 0; i < init; ++i) { q.push_right(next); L.pushed.push_back(next++); }
    std::vector<int> got[T];
    int vals[T][OPS];
    for (int t = 0; t < T; ++t)
        for (int o = 0; o < OPS; ++o) { vals[t][o] = next++; }
    std::vector<std::thread> th;
    for (int t = 0; t < T; ++t)
        th.emplace_back([&, t] {
            for (int o = 0; o < OPS; ++o)
            {
                int v = -1;
                switch (ops[t][o])
                {
                case PUSH_L: PMC_ASSERT(q.push_left(vals[t][o]), "push-failed", "push_left failed"); break;
                case PUSH_R: PMC_ASSERT(q.push_right(vals[t][o]), "push-failed", "push_right failed"); break;
                case POP_L: if (q.pop_left(v)) got[t].push_back(v); break;
                case POP_R: if (q.pop_right(v)) got[t].push_back(v); break;
                }
            }
        });
    for (auto& x : th) x.join();
    for (int t = 0; t < T; ++t)
    {
        for (int o = 0; o < OPS; ++o) if (ops[t][o] <= PUSH_R) L.pushed.push_back(vals[t][o]);
        for (int v : got[t]) L.popped.push_back(v);
    }
    L.check(q);
    pmc_outcome("init=%d pushed=%zu popped=%zu", init, L.pushed.size(), L.popped.size());
}

// sequential histories against std::deque
static void dq_sequential()
{
    int len = pmc_choose(6, 0);
    dq_t q(4);
    std::deque<int> ref;
    int next = 1;
    for (int i = 0; i < len; ++i)
    {
        int op = pmc_choose(4, 0);
        int v = -1;
        switch (op)
        {
        case PUSH_L: PMC_ASSERT(q.push_left(next), "seq-push", "push failed"); ref.push_front(next++); break;
        case PUSH_R: PMC_ASSERT(q.push_right(next), "seq-push", "push failed"); ref.push_back(next++); break;
        case POP_L:
        case POP_R:
        {
            bool ok = op == POP_L ? q.pop_left(v) : q.pop_right(v);
            PMC_ASSERT(ok == !ref.empty(), "seq-pop-result", "%s returned %d on a container with %zu elements", opn[op], (int) ok, ref.size());
            if (ok)
            {
                int want = op == POP_L ? ref.front() : ref.back();
                PMC_ASSERT(v == want, "seq-order", "%s returned %d, expected %d", opn[op], v, want);
                if (op == POP_L) ref.pop_front(); else ref.pop_back();
            }
        }
        }
        PMC_ASSERT(q.empty() == ref.empty(), "seq-empty", "empty() disagrees with the reference");
    }
    pmc_outcome("len=%d size=%zu", len, ref.size());
}

// back-ends: FIFO (ConcurrentQueue), LIFO, ABP-FIFO, ABP-LIFO (owner end vs thief end)
template <typename B, int KIND>
static void backend_sequential()
{
    // KIND 0 fifo, 1 lifo, 2 abp_fifo, 3 abp_lifo
    int len = pmc_choose(6, 0);
    B q(8);
    std::deque<int> ref;    // front = "left"
    int next = 1;
    for (int i = 0; i < len; ++i)
    {
        int op = pmc_choose(3, 0);    // 0 push, 1 pop (owner), 2 pop (steal)
        if (op == 0)
        {
            PMC_ASSERT(q.push(next), "be-push", "push failed");
            if (KIND == 0) ref.push_back(next); else ref.push_front(next);    // deque back-ends push_left
            ++next;
        }
        else
        {
            bool steal = op == 2;
            int v = -1;
            bool ok = q.pop(v, steal);
            PMC_ASSERT(ok == !ref.empty(), "be-pop-result", "pop returned %d with %zu elements inside", (int) ok, ref.size());
            if (ok)
            {
                int want;
                bool from_front;
                switch (KIND)
                {
                case 0: from_front = true; break;                 // FIFO: oldest first
                case 1: from_front = true; break;                 // LIFO: pop_left = newest
                case 2: from_front = steal; break;                // abp_fifo: owner takes the right (oldest), thief the left
                default: from_front = !steal; break;              // abp_lifo: owner takes the left (newest), thief the right
                }
                want = from_front ? ref.front() : ref.back();
                PMC_ASSERT(v == want, "be-order", "kind %d pop(steal=%d) returned %d, expected %d", KIND, (int) steal, v, want);
                if (from_front) ref.pop_front(); else ref.pop_back();
            }
        }
    }
    pmc_outcome("kind=%d len=%d size=%zu", KIND, len, ref.size());
}

// back-ends, single-threaded, sizes that cross the containers' internal boundaries (ConcurrentQueue: 32
// elements per block, block index of 32 entries = 1024 elements, index growth after blocks were recycled):
// push a, pop a, push b, pop c, drain - order and exactly-once against a std::deque
template <typename B, int KIND>
static void backend_phases()
{
    static const int A[] = {0, 31, 32, 33, 96, 100}, Bn[] = {1, 32, 1023, 1024, 1025, 3000};
    int a = A[pmc_choose(6, 0)], b = Bn[pmc_choose(6, 0)], partial = pmc_choose(2, 0);
    B q(8);
    std::deque<long> ref;
    long next = 1;
    auto push = [&](int n) { for (int i = 0; i < n; ++i) { PMC_ASSERT(q.push(next), "be-push", "push failed"); if (KIND == 0) ref.push_back(next); else ref.push_front(next); ++next; } };
    auto pop = [&](long n) {
        for (long i = 0; i < n; ++i)
        {
            long v = -1;
            bool ok = q.pop(v, false);
            PMC_ASSERT(ok == !ref.empty(), "be-pop-result", "pop %ld returned %d with %zu elements inside (a=%d b=%d)", i, (int) ok, ref.size(), a, b);
            if (!ok) return;
            bool from_front = KIND == 0 || KIND == 1 || KIND == 3;    // fifo: oldest; lifo / abp_lifo owner: newest (left); abp_fifo owner: right (oldest)
            long want = from_front ? ref.front() : ref.back();
            PMC_ASSERT(v == want, "be-order", "kind %d: pop %ld returned %ld, expected %ld (a=%d b=%d: every element exactly once, in the stated order)", KIND, i, v, want, a, b);
            if (from_front) ref.pop_front(); else ref.pop_back();
        }
    };
    push(a);
    pop(a);
    push(b);
    pop(partial ? b / 25 + 1 : b);
    push(40);
    pop((long) ref.size() + 1);    // drains; the last pop must fail
    pmc_outcome("kind=%d a=%d b=%d", KIND, a, b);
}

template <typename B, int P, int C>
static void backend_concurrent()
{
    // P producers push 2 values each, C consumers pop twice each (owner/steal by data choice)
    B q(8);
    int init = pmc_choose(2, 0);
    std::vector<int> pushed, popped;
    int next = 1;
    if (init) { q.push(next); pushed.push_back(next++); }
    int stealflag[C][2];
    for (int c = 0; c < C; ++c) for (int o = 0; o < 2; ++o) stealflag[c][o] = pmc_choose(2, 0);
    std::vector<int> got[C];
    std::vector<std::thread> th;
    int base = next;
    for (int p = 0; p < P; ++p)
        th.emplace_back([&, p] { for (int o = 0; o < 2; ++o) PMC_ASSERT(q.push(base + p * 2 + o), "be-push", "push failed"); });
    for (int c = 0; c < C; ++c)
        th.emplace_back([&, c] { for (int o = 0; o < 2; ++o) { int v = -1; if (q.pop(v, stealflag[c][o] != 0)) got[c].push_back(v); } });
    for (auto& t : th) t.join();
    for (int p = 0; p < P; ++p) for (int o = 0; o < 2; ++o) pushed.push_back(base + p * 2 + o);
    std::vector<int> count(64, 0);
    for (int v : pushed) ++count[v];
    auto take = [&](int v, const char* who) {
        PMC_ASSERT(v > 0 && v < 64 && count[v] > 0, "invented-or-duplicate", "%s returned %d which was not (or no longer) in the container", who, v);
        --count[v];
    };
    for (int c = 0; c < C; ++c) for (int v : got[c]) take(v, "concurrent pop");
    int remaining = 0;
    for (int c : count) remaining += c;
    for (int i = 0; i < remaining; ++i)
    {
        int v = -1;
        PMC_ASSERT(q.pop(v, (i & 1) != 0), "quiescent-pop-failed", "%d elements should remain but pop failed", remaining - i);
        take(v, "drain");
    }
    int v = -1;
    PMC_ASSERT(!q.pop(v, false) && !q.pop(v, true), "not-empty-after-drain", "container not empty after everything was taken");
    pmc_outcome("init=%d concurrent_pops=%d", init, (int) (pushed.size() - remaining));
}

namespace pt = pika::threads::detail;
// FIFO back-end, more consumers than elements: n elements (1-2), three consumers pop once each at the same time
template <int NMAX>
static void fifo_three_consumers()
{
    pt::lockfree_fifo_backend<int> q(8);
    int n = NMAX > 1 ? 1 + pmc_choose(NMAX, 0) : 1;
    int warm = pmc_choose(2, 0);    // 1: the sub-queue has been used before (one push/pop)
    if (warm) { q.push(99); int v; PMC_ASSERT(q.pop(v) && v == 99, "be-order", "warm-up pop returned %d", v); }
    for (int i = 1; i <= n; ++i) PMC_ASSERT(q.push(i), "be-push", "push failed");
    int got[3] = {0, 0, 0};
    std::vector<std::thread> th;
    for (int c = 0; c < 3; ++c)
        th.emplace_back([&, c] { int v = -1; if (q.pop(v)) got[c] = v; });
    for (auto& t : th) t.join();
    int count[4] = {0, 0, 0, 0}, successes = 0;
    for (int c = 0; c < 3; ++c)
        if (got[c] != 0)
        {
            PMC_ASSERT(got[c] >= 1 && got[c] <= n, "invented-or-duplicate", "a consumer got %d, which was never put in (n=%d)", got[c], n);
            PMC_ASSERT(++count[got[c]] == 1, "invented-or-duplicate", "element %d was handed to two consumers", got[c]);
            ++successes;
        }
    // drain: everything not yet taken comes out now, exactly once, and then the queue is empty
    for (int i = 1; i <= n; ++i)
        if (!count[i]) { int v = -1; PMC_ASSERT(q.pop(v), "quiescent-pop-failed", "element %d is still inside but a quiescent pop failed", i); PMC_ASSERT(v >= 1 && v <= n && ++count[v] == 1, "invented-or-duplicate", "drain returned %d", v); }
    int v = -1;
    PMC_ASSERT(!q.pop(v), "invented-or-duplicate", "pop on the drained queue returned %d", v);
    // the queue is still usable: a later element comes out
    PMC_ASSERT(q.push(7) && q.pop(v) && v == 7, "quiescent-pop-failed", "an element pushed after the race did not come out (got %d)", v);
    pmc_outcome("n=%d successes=%d", n, successes);
}

// FIFO back-end with producer threads that come and go (pika's OS worker threads do across runtime restarts):
// ConcurrentQueue keeps one sub-queue per producing OS thread, found through a hash of thread ids that grows,
// and recycles the sub-queue of a thread that has exited.  History: T1 pushes, NFILL further threads push (the
// hash grows past its first table), T1 pushes again and exits, the long-lived T2 pushes for the first time (takes
// over T1's sub-queue); then a new thread T3 - which the OS gives T1's old thread id (same stack, same TLS
// address) - and T2 push at the same time.  Everything pushed must come out exactly once.
#include <condition_variable>
#include <mutex>
template <int NFILL>
static void fifo_thread_churn()
{
    pt::lockfree_fifo_backend<int> q(8);
    // one gate per waiting thread: at every step exactly one thread is woken (a notify_all over 20 threads would
    // only multiply the free successor choices at blocking points; the threads do nothing concurrently there)
    struct Gate
    {
        std::mutex m;
        std::condition_variable cv;
        int v = 0;
        void wait(int x) { std::unique_lock<std::mutex> l(m); cv.wait(l, [&] { return v >= x; }); }
        void set(int x) { std::lock_guard<std::mutex> l(m); v = x; cv.notify_one(); }
        void add() { std::lock_guard<std::mutex> l(m); ++v; cv.notify_one(); }
    };
    static Gate gmain, g1, g2, g3, gf[NFILL];
    gmain.v = g1.v = g2.v = g3.v = 0;
    for (auto& x : gf) x.v = 0;
    std::vector<int> pushed;
    auto push = [&](int v) { PMC_ASSERT(q.push(v), "be-push", "push(%d) failed", v); };
    int second_round = pmc_choose(2, 0);    // 1: T1 pushes again after the hash has grown (it is re-added to the new table)
    int nacks = 0;
    std::uintptr_t id1 = 0, id3 = 0;
    std::thread t2([&] { g2.wait(1); push(3); gmain.add(); g2.wait(2); push(4); });
    std::thread t1([&] { id1 = pika::concurrency::detail::thread_id(); push(1); gmain.add(); g1.wait(1); if (second_round) push(2); });
    gmain.wait(++nacks);
    pushed.push_back(1);
    std::vector<std::thread> fillers;
    for (int i = 0; i < NFILL; ++i)
    {
        fillers.emplace_back([&, i] { push(100 + i); gmain.add(); gf[i].wait(1); });    // stay alive: their ids are not re-used
        gmain.wait(++nacks);
        pushed.push_back(100 + i);
    }
    g1.set(1);
    t1.join();    // T1 has exited: its sub-queue becomes recyclable
    if (second_round) pushed.push_back(2);
    g2.set(1);
    gmain.wait(++nacks);
    pushed.push_back(3);
    std::thread t3([&] { id3 = pika::concurrency::detail::thread_id(); g3.wait(1); push(5); });
    g2.set(2);    // T2's push(4) and T3's push(5) overlap
    g3.set(1);
    t3.join();
    t2.join();
    pushed.push_back(4);
    pushed.push_back(5);
    for (int i = 0; i < NFILL; ++i) { gf[i].set(1); fillers[i].join(); }
    std::vector<int> count(128, 0);
    for (int v : pushed) ++count[v];
    for (size_t i = 0; i < pushed.size(); ++i)
    {
        int v = -1;
        PMC_ASSERT(q.pop(v), "quiescent-pop-failed", "%d of %d pushed elements came out, then pop failed (T3 %s T1's thread id)", (int) i, (int) pushed.size(), id1 == id3 ? "re-uses" : "does not re-use");
        PMC_ASSERT(v > 0 && v < 128 && count[v] > 0, "invented-or-duplicate", "drain returned %d which was not (or no longer) in the container", v);
        --count[v];
    }
    int v = -1;
    PMC_ASSERT(!q.pop(v), "invented-or-duplicate", "pop on the drained queue returned %d", v);
    pmc_outcome("second_round=%d id_reused=%d", second_round, (int) (id1 == id3));
}

// Producer threads whose ids collide in the FIFO back-end's producer hash (32 slots): 20 candidate threads report
// the slot their id hashes to; two with the same slot become A and B.  A pushes (home slot), B pushes (displaced to
// the next slot), B exits (its displaced key has to be retired, its sub-queue becomes recyclable), then two new
// threads push at the same time - one of them re-using B's id (the stack / TLS block of an exited thread is re-used),
// the other being handed the recycled sub-queue.  Everything pushed must come out exactly once.
static void fifo_hash_collision()
{
    constexpr int NC = 20;
    pt::lockfree_fifo_backend<int> q(8);
    struct Gate
    {
        std::mutex m;
        std::condition_variable cv;
        int v = 0;
        void wait(int x) { std::unique_lock<std::mutex> l(m); cv.wait(l, [&] { return v >= x; }); }
        void set(int x) { std::lock_guard<std::mutex> l(m); v = x; cv.notify_one(); }
        void add() { std::lock_guard<std::mutex> l(m); ++v; cv.notify_one(); }
    };
    static Gate gmain, gc[NC], gn[2];
    gmain.v = gn[0].v = gn[1].v = 0;
    for (auto& x : gc) x.v = 0;
    static int slot[NC], role[NC];    // role: 0 idle, 1 A, 2 B
    static std::uintptr_t ids[NC], newid[2];
    auto push = [&](int v) { PMC_ASSERT(q.push(v), "be-push", "push(%d) failed", v); };
    int nacks = 0;
    std::vector<std::thread> cand;
    for (int i = 0; i < NC; ++i)
    {
        cand.emplace_back([&, i] {
            ids[i] = (std::uintptr_t) pika::concurrency::detail::thread_id();
            slot[i] = (int) (pika::concurrency::detail::hash_thread_id(pika::concurrency::detail::thread_id()) & 31u);
            gmain.add();
            gc[i].wait(1);
            if (role[i] == 1) { push(1); gmain.add(); gc[i].wait(2); push(2); }                 // A stays alive to the end
            else if (role[i] == 2) { push(3); push(4); }                                        // B: displaced key, then exits
        });
        gmain.wait(++nacks);
    }
    int a = -1, b = -1;
    for (int i = 0; i < NC && a < 0; ++i)
        for (int j = i + 1; j < NC; ++j)
            if (slot[i] == slot[j]) { a = i; b = j; break; }
    std::vector<int> pushed;
    for (int i = 0; i < NC; ++i) role[i] = i == a ? 1 : i == b ? 2 : 0;
    // the idle candidates exit first (they never touched the queue), so that B's stack / TLS block is the one
    // freed last and the next thread created re-uses it (and with it B's thread id)
    for (int i = 0; i < NC; ++i) if (i != a && i != b) { gc[i].set(1); cand[i].join(); }
    if (a >= 0)
    {
        gc[a].set(1);
        gmain.wait(++nacks);    // A has its home slot
        gc[b].set(1);
        cand[b].join();         // B pushed through a displaced key and exited
        pushed = {1, 3, 4};
    }
    // two new threads push at the same time
    std::thread n0([&] { newid[0] = (std::uintptr_t) pika::concurrency::detail::thread_id(); gn[0].wait(1); push(5); push(6); });
    std::thread n1([&] { newid[1] = (std::uintptr_t) pika::concurrency::detail::thread_id(); gn[1].wait(1); push(7); push(8); });
    gn[0].set(1);
    gn[1].set(1);
    n0.join();
    n1.join();
    for (int v : {5, 6, 7, 8}) pushed.push_back(v);
    if (a >= 0) { gc[a].set(2); cand[a].join(); pushed.push_back(2); }
    int reused = a >= 0 && (newid[0] == ids[b] || newid[1] == ids[b]);
    std::vector<int> count(16, 0);
    for (int v : pushed) ++count[v];
    for (size_t i = 0; i < pushed.size(); ++i)
    {
        int v = -1;
        PMC_ASSERT(q.pop(v), "quiescent-pop-failed", "%d of %d pushed elements came out, then pop failed (producer hash collision %s, the exited thread's id was %s)", (int) i, (int) pushed.size(), a >= 0 ? "found" : "not found", reused ? "re-used" : "not re-used");
        PMC_ASSERT(v > 0 && v < 16 && count[v] > 0, "invented-or-duplicate", "drain returned %d which was not (or no longer) in the container", v);
        --count[v];
    }
    int v = -1;
    PMC_ASSERT(!q.pop(v), "invented-or-duplicate", "pop on the drained queue returned %d", v);
    pmc_outcome("collision=%d id_reused=%d", (int) (a >= 0), reused);
}

int main(int argc, char** argv)
{
    static const char* dsites = "concurrency/include/pika/concurrency/deque.hpp|boost/lockfree/detail/freelist.hpp|concurrency/detail/freelist.hpp";
    static const char* cqsites = "concurrency/include/pika/concurrency/concurrentqueue.hpp";
    static const pmc_spec specs[] = {
        {"dq_seq", dq_sequential, 0, 0, 0.04, 0.02, 0, "sequential histories, depth<=5, alphabet of 4 ops", nullptr, nullptr},
        {"be_fifo_seq", backend_sequential<pt::lockfree_fifo_backend<int>, 0>, 0, 0, 0.02, 0.01, 0, "sequential", nullptr, nullptr},
        {"be_lifo_seq", backend_sequential<pt::lockfree_lifo_backend<int>, 1>, 0, 0, 0.02, 0.01, 0, "sequential", nullptr, nullptr},
        {"be_abp_fifo_seq", backend_sequential<pt::lockfree_abp_fifo_backend<int>, 2>, 0, 0, 0.02, 0.01, 0, "sequential", nullptr, nullptr},
        {"be_abp_lifo_seq", backend_sequential<pt::lockfree_abp_lifo_backend<int>, 3>, 0, 0, 0.02, 0.01, 0, "sequential", nullptr, nullptr},
        {"be_fifo_phases", backend_phases<pt::lockfree_fifo_backend<long>, 0>, 0, 0, 0.02, 0.01, 0, "sequential, sizes across the block (32) and block-index (1024) boundaries of ConcurrentQueue", nullptr, nullptr},
        {"be_lifo_phases", backend_phases<pt::lockfree_lifo_backend<long>, 1>, 0, 0, 0.02, 0.01, 0, "sequential, boundary sizes", nullptr, nullptr},
        {"be_abp_fifo_phases", backend_phases<pt::lockfree_abp_fifo_backend<long>, 2>, 0, 0, 0.02, 0.01, 0, "sequential, boundary sizes", nullptr, nullptr},
        {"be_abp_lifo_phases", backend_phases<pt::lockfree_abp_lifo_backend<long>, 3>, 0, 0, 0.02, 0.01, 0, "sequential, boundary sizes", nullptr, nullptr},
        {"dq_2x1", dq_concurrent<2, 1, 4>, 3, 6, 0.1, 0.1, 1, "F-site: all atomics in deque.hpp / freelist (anchor 128-bit CAS, node links, freelist head)", dsites, nullptr},
        {"dq_2x2", dq_concurrent<2, 2, 4>, 1, 2, 0.3, 0.3, 1, "F-site: deque.hpp / freelist", dsites, nullptr},
        {"dq_3x1", dq_concurrent<3, 1, 4>, 1, 3, 0.2, 0.2, 1, "F-site: deque.hpp / freelist", dsites, nullptr},
        {"dq_3x2", dq_concurrent<3, 2, 4>, 0, 1, 0.05, 0.2, 1, "F-site: deque.hpp / freelist", dsites, nullptr},
        {"be_fifo_2p1c", backend_concurrent<pt::lockfree_fifo_backend<int>, 2, 1>, 1, 2, 0.06, 0.1, 1, "F-site: all atomics in concurrentqueue.hpp", cqsites, nullptr},
        {"be_fifo_3c", fifo_three_consumers<1>, 3, -1, 0.35, 0, 1, "F-site: ImplicitProducer::dequeue only (the consumers' tickets and over-commit counters); three consumers, fewer elements than consumers", "ImplicitProducer::dequeue", nullptr},
        {"be_fifo_3c_n2", fifo_three_consumers<2>, -1, 3, 0, 0.2, 1, "the same with 1-2 elements", "ImplicitProducer::dequeue", nullptr},
        {"be_fifo_hash_collision", fifo_hash_collision, 2, 3, 0.08, 0.05, 1, "F-site: ImplicitProducer::enqueue / get_or_add_implicit_producer / thread-exit recycling; two producer threads whose ids collide in the producer hash, one exits, two new threads push at the same time", "ImplicitProducer::enqueue|get_or_add_implicit_producer|implicit_producer_thread_exited|recycle_or_create_producer", nullptr},
        {"be_fifo_thread_churn", fifo_thread_churn<17>, 1, 2, 0.05, 0.05, 1, "F-site: ImplicitProducer::enqueue / get_or_add_implicit_producer / thread-exit recycling; 20 OS threads, two of them pushing at the same time at the end", "ImplicitProducer::enqueue|get_or_add_implicit_producer|implicit_producer_thread_exited|recycle_or_create_producer", nullptr},
        {"be_fifo_1p2c", backend_concurrent<pt::lockfree_fifo_backend<int>, 1, 2>, 1, 2, 0.06, 0.1, 1, "F-site: concurrentqueue.hpp", cqsites, nullptr},
        {"be_abp_lifo_1p2c", backend_concurrent<pt::lockfree_abp_lifo_backend<int>, 1, 2>, 1, 2, 0.06, 0.05, 1, "F-site: deque.hpp / freelist", dsites, nullptr},
    };
    static const char* assumptions[] = {"sequentially consistent interleavings only", "compare_exchange_weak never fails spuriously",
        "choice points only at the atomics of the container's own source files (F-site)"};
    pmc_config cfg{};
    cfg.property_id = "C17";
    cfg.rule = "deque / back-ends: initial content x all op words for the threads (data choices) x all schedules within the deviation bound; sequential histories to depth 5 against std::deque";
    cfg.assumptions = assumptions;
    cfg.n_assumptions = 3;
    cfg.quick_budget_s = 90;
    cfg.thorough_budget_s = 900;
    return pmc_main(argc, argv, &cfg, specs, sizeof specs / sizeof specs[0]);
}
