// C02: no lost wake-up — a task that registered itself as a waiter and whose wake-up has been issued
// runs again, whatever the interleaving of {suspending task, its worker, waker(s) on another worker or
// on a non-pika thread, the retry helper task, a stealing worker}.  pmc-rt, 2 workers.
#include "rt_common.h"
#include <pika/synchronization/detail/condition_variable.hpp>
#include <pika/concurrency/spinlock.hpp>
#include <pika/mutex.hpp>
#include <pika/condition_variable.hpp>
#include <chrono>
#include <thread>
#include <pika/thread.hpp>
#include <mutex>

using spin_t = pika::concurrency::detail::spinlock;
struct St
{
    int registered = 0, issued = 0, resumed = 0, finished = 0;
    int nwaiters = 1;
};
static St* g;
static void on_stuck()
{
    St& s = *g;
    if (s.issued >= s.nwaiters && s.resumed < s.nwaiters)
    {
        // (no queries to the runtime here: its queue locks may be held by a parked worker)
        pmc_fail("lost-wakeup", "wake-up issued for %d waiter(s) but only %d resumed; the runtime is quiescent or only polling", s.issued, s.resumed);
    }
}

// WAKER: 0 = task on the pool, 1 = external (main, non-pika thread); BUSY: extra task that keeps a worker busy
template <int WAKER, int BUSY, int NW>
static void cv_wake()
{
    static St s;
    s = St{};
    s.nwaiters = NW;
    g = &s;
    spin_t& mtx = *new spin_t;
    auto& cond = *new pika::detail::condition_variable;
    pmc_watch(&mtx, sizeof mtx, "lock");
    pmc_watch(&cond, sizeof cond, "cond");
    pmc_on_stuck(on_stuck);
    rt::start();
    for (int w = 0; w < NW; ++w)
        rt::spawn([&, w] {
            rt::watch_self(w == 0 ? "S0" : "S1");
            std::unique_lock<spin_t> l(mtx);
            ++s.registered;
            cond.wait(l);      // enqueue under the lock, unlock, suspend
            ++s.resumed;
            l.unlock();
            ++s.finished;
        });
    auto waker = [&](bool task) {
        int woken = 0, guard = 0;
        while (woken < NW && ++guard < 300)
        {
            {
                std::unique_lock<spin_t> l(mtx);
                if (!cond.empty(l))
                {
                    // the waiter is registered: from here on its wake-up counts as issued
                    cond.notify_one(std::move(l));
                    ++woken;
                    ++s.issued;
                    pmc_progress();
                    continue;
                }
            }
            if (task) pika::this_thread::yield(); else sched_yield();
        }
        PMC_ASSERT(woken == NW, "harness", "waker never saw the waiters registered");
    };
    if (BUSY)
        rt::spawn([&] { for (int i = 0; i < 3; ++i) pika::this_thread::yield(); ++s.finished; });
    if (WAKER == 0) rt::spawn([&] { rt::watch_self("waker"); waker(true); ++s.finished; });
    else { waker(false); ++s.finished; }
    rt::stop();
    PMC_ASSERT(s.resumed == NW, "lost-wakeup", "%d of %d waiters resumed after all wake-ups were issued", s.resumed, NW);
    PMC_ASSERT(s.finished == NW + 1 + BUSY, "task-lost", "%d of %d bodies finished", s.finished, NW + 1 + BUSY);
    pmc_outcome("resumed=%d", s.resumed);
}

// the same path through pika::mutex: unlock while a task is blocked in lock()
template <int WAKER_EXTERNAL>
static void mutex_wake()
{
    static St s;
    s = St{};
    g = &s;
    auto& m = *new pika::mutex;
    pmc_watch(&m, sizeof m, "mutex");
    pmc_on_stuck(on_stuck);
    int holder_has = 0;
    rt::start();
    rt::spawn([&] {
        rt::watch_self("holder");
        m.lock();
        holder_has = 1;
        int guard = 0;
        while (!s.registered && ++guard < 300) pika::this_thread::yield();
        // S announced it is about to block; it may or may not be queued yet
        for (int i = 0; i < 2; ++i) pika::this_thread::yield();
        m.unlock();
        s.issued = 1;
        pmc_progress();
        ++s.finished;
    });
    rt::spawn([&] {
        rt::watch_self("S0");
        int guard = 0;
        while (!holder_has && ++guard < 300) pika::this_thread::yield();
        s.registered = 1;
        m.lock();
        s.resumed = 1;
        m.unlock();
        ++s.finished;
    });
    rt::stop();
    PMC_ASSERT(s.resumed == 1 && s.finished == 2, "lost-wakeup", "blocked locker did not acquire the mutex after unlock (resumed=%d finished=%d)", s.resumed, s.finished);
    pmc_outcome("resumed=%d", s.resumed);
}

// two wake-ups with different restart states for the same blocked task: notify_one ("signaled") and
// thread::interrupt ("abort").  Whatever their order relative to the worker that picks the task up,
// the task must run again (it returns from wait or leaves it with the interruption exception).
// NOTIFY=0: thread::interrupt (the non-retrying form of set_thread_state) is the only wake-up
template <int INTERRUPT_EXTERNAL, int NOTIFY = 1>
static void two_wakers()
{
    static St s;
    s = St{};
    g = &s;
    spin_t& mtx = *new spin_t;
    auto& cond = *new pika::detail::condition_variable;
    pmc_watch(&mtx, sizeof mtx, "lock");
    pmc_watch(&cond, sizeof cond, "cond");
    pmc_on_stuck(on_stuck);
    rt::start();
    pika::thread* t = nullptr;
    int t_made = 0, joined = 0;
    rt::spawn([&] {
        t = new pika::thread([&] {
            rt::watch_self("S0");
            try
            {
                std::unique_lock<spin_t> l(mtx);
                ++s.registered;
                cond.wait(l);
            }
            catch (...) {}
            ++s.resumed;
            ++s.finished;
        });
        t_made = 1;
        // waker A: notify once the waiter is registered
        int guard = 0, woken = 0;
        while (NOTIFY && !woken && !s.resumed && ++guard < 300)
        {
            {
                std::unique_lock<spin_t> l(mtx);
                if (!cond.empty(l)) { cond.notify_one(std::move(l)); woken = 1; s.issued = 1; pmc_progress(); continue; }
            }
            pika::this_thread::yield();
        }
        PMC_ASSERT(!NOTIFY || woken || s.resumed, "harness", "waker never saw the waiter registered");
        t->join();
        joined = 1;
        ++s.finished;
    });
    auto interrupter = [&](bool task) {
        int guard = 0;
        while (!(t_made && s.registered) && ++guard < 300) { if (task) pika::this_thread::yield(); else sched_yield(); }
        if (t_made && s.registered)
        {
            try { t->interrupt(); s.issued = 1; } catch (pika::exception const&) {}    // already joined: the handle is empty (null_thread_id)
            pmc_progress();
        }
        ++s.finished;
    };
    if (INTERRUPT_EXTERNAL) interrupter(false);
    else rt::spawn([&] { rt::watch_self("interrupter"); interrupter(true); });
    rt::stop();
    PMC_ASSERT(s.resumed == 1, "lost-wakeup", "a task woken by notify_one and by interrupt() never ran again (resumed=%d)", s.resumed);
    PMC_ASSERT(s.finished == 3 && joined, "task-lost", "%d of 3 bodies finished, joined=%d", s.finished, joined);
    delete t;
    pmc_outcome("resumed=%d", s.resumed);
}

// a timed wait (a yield-until-deadline loop of "boosted" yields underneath) that is notified: the waiter must
// come back - by the notification or, at the latest, by its deadline
template <int WAKER_EXTERNAL>
static void timed_wait_wake()
{
    static St s;
    s = St{};
    g = &s;
    auto& m = *new pika::mutex;
    auto& cv = *new pika::condition_variable;
    pmc_watch(&cv, sizeof cv, "cond");
    pmc_on_stuck(on_stuck);
    static int flag, result;
    flag = 0;
    result = -1;
    rt::start();
    rt::spawn([&] {
        rt::watch_self("S0");
        std::unique_lock<pika::mutex> l(m);
        s.registered = 1;
        uint64_t deadline = pmc_now() + 50000000ull;
        pmc_deadline(deadline);
        result = (int) cv.wait_for(l, std::chrono::milliseconds(50), [] { return flag != 0; });
        PMC_ASSERT(result == flag, "timed-wait-result", "wait_for(pred) returned %d while the predicate is %d (lock held)", result, flag);
        s.resumed = 1;
        l.unlock();
        ++s.finished;
    });
    auto waker = [&](bool task) {
        int guard = 0;
        while (!s.registered && ++guard < 300) { if (task) pika::this_thread::yield(); else sched_yield(); }
        {
            std::unique_lock<pika::mutex> l(m);
            flag = 1;
        }
        cv.notify_one();
        s.issued = 1;
        pmc_progress();
        ++s.finished;
    };
    if (WAKER_EXTERNAL) { std::thread t([&] { waker(false); }); t.join(); }
    else rt::spawn([&] { rt::watch_self("waker"); waker(true); });
    rt::stop();
    PMC_ASSERT(s.resumed == 1 && s.finished == 2, "lost-wakeup", "a notified timed wait never returned (resumed=%d finished=%d)", s.resumed, s.finished);
    pmc_outcome("resumed=%d", s.resumed);
}

// The waiter is a plain OS thread (pika facilities block such a thread through the default agent: std::mutex and
// two condition variables; resume() waits until the waiter has really gone to sleep).  The wake-up is issued in the
// window in which the waiter has released the internal lock but has not suspended yet; timed waits inside the
// agent (there are none on the unchanged tree) are deadlines the explorer may let pass.
template <int NOTIFIER_TASK>
static void os_waiter()
{
    static St s;
    s = St{};
    s.nwaiters = 1;
    g = &s;
    spin_t& mtx = *new spin_t;
    auto& cond = *new pika::detail::condition_variable;
    pmc_watch(&mtx, sizeof mtx, "lock");
    pmc_watch(&cond, sizeof cond, "cond");
    pmc_focus_pthread(1);
    pmc_on_stuck(on_stuck);
    std::thread w([&] {
        pmc_watch(&pika::execution::this_thread::detail::agent().ref(), 192, "waiter's default agent");
        std::unique_lock<spin_t> l(mtx);
        ++s.registered;
        cond.wait(l);
        ++s.resumed;
        pmc_progress();
        l.unlock();
        ++s.finished;
    });
    int woken = 0, guard = 0;
    while (!woken && ++guard < 300)
    {
        {
            std::unique_lock<spin_t> l(mtx);
            if (!cond.empty(l))
            {
                cond.notify_one(std::move(l));
                ++woken;
                ++s.issued;
                pmc_progress();
                continue;
            }
        }
        sched_yield();
    }
    PMC_ASSERT(woken == 1, "harness", "waker never saw the waiter registered");
    w.join();
    pmc_focus_pthread(0);
    PMC_ASSERT(s.resumed == 1, "lost-wakeup", "the OS-thread waiter did not resume after its wake-up was issued");
    pmc_outcome("resumed=%d", s.resumed);
}

int main(int argc, char** argv)
{
    static const char* sites = "set_thread_state|set_active_state|execution_agent::do_(yield|resume)|detail::condition_variable::(wait|notify_one)|create_work|scheduling_loop.hpp:(9[0-9]|1[01][0-9])";
    static const char* focus = "F-addr: waiter state words, the internal lock and condition_variable; F-site: set_thread_state, set_active_state, do_yield/do_resume, condition_variable::wait/notify_one, create_work, switch_status";
    static const pmc_spec specs[] = {
        {"cv_task_waker", cv_wake<0, 0, 1>, 2, 3, 0.3, 0.25, 1, focus, sites, "src"},
        {"cv_external_waker", cv_wake<1, 0, 1>, 2, 3, 0.25, 0.25, 1, focus, sites, "src"},
        {"cv_task_waker_busy", cv_wake<0, 1, 1>, 1, 2, 0.15, 0.2, 1, focus, sites, "src"},
        {"cv_two_waiters", cv_wake<0, 0, 2>, 1, 2, 0.15, 0.15, 1, focus, sites, "src"},
        {"mutex_unlock_wakes", mutex_wake<0>, 1, 2, 0.15, 0.15, 1, "F-addr: pika::mutex + state words; same F-site set", sites, "src"},
        {"timed_wait_notified", timed_wait_wake<0>, 1, 2, 0.15, 0.1, 1, focus, sites, "src"},
        {"two_wakers_signal_abort", two_wakers<0>, 2, 3, 0.2, 0.2, 1, focus, sites, "src"},
        {"two_wakers_signal_abort_ext", two_wakers<1>, 2, 3, 0.15, 0.15, 1, focus, sites, "src"},
        {"interrupt_only", two_wakers<0, 0>, 2, 3, 0.1, 0.1, 1, focus, sites, "src"},
        {"os_thread_waiter", os_waiter<0>, 2, 3, 0.05, 0.05, 1, "F-addr: internal lock, condition_variable, the waiter's default agent (its mutex and condition variables; timed waits on them are deadlines); all pthread operations are points", sites, "src"},
        {"interrupt_only_ext", two_wakers<1, 0>, 2, 3, 0.1, 0.1, 1, focus, sites, "src"},
    };
    static const char* assumptions[] = {"sequentially consistent interleavings only", "2 worker threads", "fairness: a thread that spins (same failed operation, or 4000 atomic operations without a switch) is descheduled, i.e. the helper-task retry chain is cut by weak fairness"};
    pmc_config cfg{};
    cfg.property_id = "C02";
    cfg.rule = "suspender / waker (task or external thread) / optional busy task programs x all schedules within the deviation bound; a quiescent runtime with an issued wake-up and a still-suspended task is the violation";
    cfg.assumptions = assumptions;
    cfg.n_assumptions = 3;
    cfg.warmup = rt::warmup;
    cfg.quick_budget_s = 100;
    cfg.thorough_budget_s = 900;
    return pmc_main(argc, argv, &cfg, specs, sizeof specs / sizeof specs[0]);
}
