// Helpers for pmc-rt harnesses: a live pika runtime inside every execution.
#pragma once
#include "pmc.h"
#include <pika/init.hpp>
#include <pika/execution.hpp>
#include <pika/runtime.hpp>
#include <pika/thread.hpp>
#include <pika/threading_base/thread_data.hpp>
#include <pika/threading_base/threading_base_fwd.hpp>
#include <string>
#include <vector>
#include <cstdio>

namespace rt {
namespace ex = pika::execution::experimental;
namespace tt = pika::this_thread::experimental;

struct config
{
    int workers = 2;
    const char* scheduler = nullptr;    // pika.scheduler value (nullptr = default local-priority-fifo)
    std::vector<std::string> extra;
    pika::resource::partitioner_mode rp_mode = pika::resource::mode_default;
    pika::detail::rp_callback_type rp_callback;
};

inline void start(config const& c = config{})
{
    static const char* argv[] = {"harness", nullptr};
    pika::init_params p;
    p.cfg = {"pika.os_threads=" + std::to_string(c.workers), "pika.max_idle_loop_count=4",
        "pika.max_busy_loop_count=4", "pika.bind=none", "pika.install_signal_handlers=0",
        "pika.diagnostics_on_terminate=0"};
    if (c.scheduler) p.cfg.push_back(std::string("pika.scheduler=") + c.scheduler);
    for (auto const& e : c.extra) p.cfg.push_back(e);
    p.rp_mode = c.rp_mode;
    if (c.rp_callback) p.rp_callback = c.rp_callback;
    pika::start(nullptr, 1, argv, p);
}
inline void stop()
{
    pika::finalize();
    pika::stop();
}
// uncontrolled warm-up (hwloc topology, statics, allocator pools) before anything is forked
inline void warmup()
{
    config c;
    start(c);
    stop();
}
template <typename F>
void spawn(F&& f, pika::execution::thread_priority prio = pika::execution::thread_priority::normal)
{
    auto sched = ex::with_priority(ex::thread_pool_scheduler{}, prio);
    ex::execute(sched, std::forward<F>(f));
    // submitting work is a progress event: workers that were classified as idle/spinning become eligible
    // again at the next scheduling points (the queue operations themselves are usually not focused)
    pmc_progress();
}
// watch the calling task's whole thread_data (state word, refcount, last worker, ...)
inline void watch_self_full(const char* name)
{
    auto* td = pika::threads::detail::get_self_id_data();
    if (td) pmc_watch(td, sizeof(pika::threads::detail::thread_data), name);
}
// watch only the calling task's state word (state, restart state, tag)
inline void watch_self(const char* name)
{
    auto* td = pika::threads::detail::get_self_id_data();
    if (td) pmc_watch(&td->current_state_, sizeof(td->current_state_), name);
}
}    // namespace rt
