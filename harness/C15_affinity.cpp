// C15 (seqx grid): workers are pinned to distinct PUs inside the process mask.  One forked worker per
// synthetic hwloc topology (pika caches the topology); for each: every non-empty process mask, four
// binding modes (+ none), thread counts 1..|mask|+1 through the real affinity_data::init.
#include "seqx.h"
#include <pika/affinity/affinity_data.hpp>
#include <pika/modules/errors.hpp>
#include <pika/topology/topology.hpp>
#include <pika/init.hpp>
#include <pika/execution.hpp>
#include <pika/runtime/thread_pool_helpers.hpp>
#include <sched.h>
#include <hwloc.h>
#include <atomic>
#include <pika/execution_base/any_sender.hpp>
#include <bit>
#include <string>

namespace pt = pika::threads::detail;
static void sweep(const char* synthetic, int npus, bool all_masks)
{
    // the topology singleton is created while libpika is loaded: the driver starts this binary with
    // HWLOC_SYNTHETIC already in the environment (one process per topology)
    const char* env = getenv("HWLOC_SYNTHETIC");
    if (!env || std::string(env) != synthetic) { seqx::begin_case("topology %s", synthetic); seqx::fail("harness-topology", "HWLOC_SYNTHETIC is not '%s' in this process", synthetic); }
    auto& topo = pt::get_topology();
    int hc = (int) pt::hardware_concurrency();
    seqx::begin_case("topology %s: %d PUs seen by pika", synthetic, hc);
    SEQX_CHECK(hc == npus, "harness-topology", "pika sees %d PUs for HWLOC_SYNTHETIC=%s (expected %d)", hc, synthetic, npus);
    // OS index of every logical PU, read from hwloc directly (the oracle's own conversion): a process
    // mask is given in OS numbers, pika's worker masks are in logical numbers
    int os_of[64];
    bool permuted = false;
    {
        int const pu_depth = hwloc_get_type_or_below_depth(topo.topo, HWLOC_OBJ_PU);
        for (int l = 0; l < npus; ++l)
        {
            hwloc_obj_t o = hwloc_get_obj_by_depth(topo.topo, pu_depth, l);
            SEQX_CHECK(o && (int) o->logical_index == l && (int) o->os_index < npus, "harness-topology", "unexpected PU object for logical index %d", l);
            os_of[l] = (int) o->os_index;
            if (os_of[l] != l) permuted = true;
        }
    }
    seqx::begin_case("topology %s: OS numbering %s", synthetic, permuted ? "differs from the logical numbering" : "equals the logical numbering");
    SEQX_CHECK(permuted == (strstr(synthetic, "indexes=") != nullptr), "harness-topology", "OS numbering of %s is not what the topology string asks for", synthetic);
    static const char* modes[] = {"compact", "scatter", "balanced", "numa-balanced"};
    unsigned long full = (1ul << npus) - 1;
    std::vector<unsigned long> masks;
    if (all_masks) for (unsigned long m = 1; m <= full; ++m) masks.push_back(m);
    else
    {
        // structured family: prefixes, suffixes, every other PU, single holes, halves
        for (int k = 1; k <= npus; ++k) { masks.push_back((1ul << k) - 1); masks.push_back(full & ~((1ul << (k - 1)) - 1)); masks.push_back(full & ~(1ul << (k - 1))); }
        masks.push_back(0x5555555555555555ul & full);
        masks.push_back(0xAAAAAAAAAAAAAAAAul & full);
        masks.push_back(0x3333333333333333ul & full);
        masks.push_back(full);
    }
    for (unsigned long m : masks)    // m: process mask in OS numbers, as --pika:process-mask takes it
    {
        pt::mask_type pm{};
        pt::resize(pm, npus);
        for (int b = 0; b < npus; ++b) if (m >> b & 1) pt::set(pm, b);
        topo.set_cpubind_mask_main_thread(pm);
        int avail = std::popcount(m);
        unsigned long m_os = m;
        m = 0;    // from here on m = the logical PUs whose OS number is in the requested mask
        for (int l = 0; l < npus; ++l) if (m_os >> os_of[l] & 1) m |= 1ul << l;
        for (int mi = 0; mi < 4; ++mi)
            for (int nt = 1; nt <= avail + 1; ++nt)
            {
                seqx::begin_case("topology %s process-mask(OS numbers)=0x%lx (logical PUs 0x%lx) bind=%s threads=%d", synthetic, m_os, m, modes[mi], nt);
                ++seqx::g->transitions;
                pika::detail::affinity_data ad;
                bool threw = false;
                std::string what;
                try { ad.init(nt, nt, std::size_t(-1), 1, 0, "pu", modes[mi], true); }
                catch (pika::exception const& e) { threw = true; what = e.what(); }
                if (nt > avail)
                {
                    SEQX_CHECK(threw, "oversubscription-accepted", "%d threads were accepted on a process mask with %d PUs", nt, avail);
                    continue;
                }
                SEQX_CHECK(!threw, "rejected-valid", "a satisfiable request was rejected: %s", what.substr(0, 200).c_str());
                unsigned long used = 0;
                for (int w = 0; w < nt; ++w)
                {
                    auto const& wm = ad.get_pu_mask(topo, w);
                    unsigned long bits = 0;
                    for (int b = 0; b < npus; ++b) if (pt::test(wm, b)) bits |= 1ul << b;
                    SEQX_CHECK(std::popcount(bits) == 1, "not-one-pu", "worker %d is bound to %d PUs (mask 0x%lx)", w, std::popcount(bits), bits);
                    SEQX_CHECK((bits & ~m) == 0, "outside-process-mask", "worker %d is bound to logical PU mask 0x%lx (OS cpu %d), outside the process mask: OS cpus 0x%lx = logical PUs 0x%lx", w, bits, os_of[std::countr_zero(bits)], m_os, m);
                    SEQX_CHECK((bits & used) == 0, "shared-pu", "worker %d shares its PU (mask 0x%lx) with an earlier worker", w, bits);
                    used |= bits;
                    unsigned long reported = ad.get_pu_num(w);
                    SEQX_CHECK((1ul << reported) == bits, "reported-pu-differs", "worker %d: pika reports PU %lu but binds to PU mask 0x%lx", w, reported, bits);
                }
                ++seqx::g->states;
            }
        // binding 'none'
        {
            seqx::begin_case("topology %s mask=0x%lx bind=none", synthetic, m);
            ++seqx::g->transitions;
            pika::detail::affinity_data ad;
            ad.init(avail, avail, std::size_t(-1), 1, 0, "pu", "none", true);
            for (int w = 0; w < avail; ++w)
            {
                auto const& wm = ad.get_pu_mask(topo, w);
                SEQX_CHECK(!pt::any(wm), "none-is-bound", "bind=none but worker %d has a binding mask", w);
            }
            ++seqx::g->states;
        }
    }
}

// live grid on the real machine: every worker's OS affinity equals what pika reports; each worker in
// exactly one pool
static void live(bool thorough)
{
    unsetenv("HWLOC_SYNTHETIC");
    static const char* modes[] = {"balanced", "compact", "scatter", "numa-balanced"};
    int counts_q[] = {1, 2, 3, 8, 16}, counts_t[] = {1, 2, 3, 4, 5, 7, 8, 9, 12, 15, 16};
    int* counts = thorough ? counts_t : counts_q;
    int ncounts = thorough ? 11 : 5;
    for (int mi = 0; mi < 4; ++mi)
        for (int ci = 0; ci < ncounts; ++ci)
            for (int two_pools = 0; two_pools < 2; ++two_pools)
            {
                int nt = counts[ci];
                if (two_pools && nt < 2) continue;
                seqx::begin_case("live runtime threads=%d bind=%s pools=%d", nt, modes[mi], two_pools + 1);
                ++seqx::g->transitions;
                static const char* argv[] = {"C15_affinity", nullptr};
                pika::init_params p;
                p.cfg = {"pika.os_threads=" + std::to_string(nt), std::string("pika.bind=") + modes[mi]};
                if (two_pools)
                    p.rp_callback = [](pika::resource::partitioner& rp, pika::program_options::variables_map const&) {
                        rp.create_thread_pool("aux");
                        int c = 0;
                        for (auto const& d : rp.sockets()) for (auto const& co : d.cores()) for (auto const& pu : co.pus()) if (c++ == 0) rp.add_resource(pu, "aux");
                    };
                pika::start(nullptr, 1, argv, p);
                namespace ex = pika::execution::experimental;
                auto& rp = pika::resource::get_partitioner();
                std::size_t npools = rp.get_num_pools();
                std::size_t total = 0;
                std::vector<unsigned long> seen_masks;
                for (std::size_t pi = 0; pi < npools; ++pi)
                {
                    auto& pool = pika::resource::get_thread_pool(pi);
                    std::size_t n = pool.get_os_thread_count();
                    total += n;
                    // n tasks that busy-wait (without yielding) until all n have started: one per worker
                    std::vector<unsigned long> os_masks(n, 0);
                    std::vector<std::size_t> globals(n, 0);
                    std::atomic<std::size_t> started{0};
                    std::vector<int> hit(n, 0);
                    {
                        auto sched = ex::thread_pool_scheduler{&pool};
                        std::vector<ex::unique_any_sender<>> tasks;
                        for (std::size_t k = 0; k < n; ++k)
                            tasks.emplace_back(ex::schedule(sched) | ex::then([&] {
                                std::size_t local = pika::get_local_worker_thread_num();
                                cpu_set_t cs;
                                CPU_ZERO(&cs);
                                sched_getaffinity(0, sizeof cs, &cs);
                                unsigned long m = 0;
                                for (int b = 0; b < 64; ++b) if (CPU_ISSET(b, &cs)) m |= 1ul << b;
                                if (local < os_masks.size()) { os_masks[local] = m; globals[local] = pika::get_worker_thread_num(); ++hit[local]; }
                                ++started;
                                while (started.load() < n) { /* spin: keep this worker occupied */ }
                            }));
                        pika::this_thread::experimental::sync_wait(ex::when_all_vector(std::move(tasks)));
                    }
                    for (std::size_t w = 0; w < n; ++w)
                    {
                        SEQX_CHECK(hit[w] == 1, "harness-live", "live: worker %zu of pool %zu ran %d of the pinned probe tasks", w, pi, hit[w]);
                        unsigned long os_mask = os_masks[w], pika_mask = 0;
                        auto const& wm = rp.get_pu_mask(globals[w]);
                        for (int b = 0; b < 64 && b < (int) pt::mask_size(wm); ++b) if (pt::test(wm, b)) pika_mask |= 1ul << b;
                        SEQX_CHECK(std::popcount(os_mask) == 1, "not-one-pu", "live: worker %zu of pool %zu runs with OS affinity 0x%lx", w, pi, os_mask);
                        SEQX_CHECK(os_mask == pika_mask, "reported-pu-differs", "live: worker %zu of pool %zu: OS affinity 0x%lx, pika reports 0x%lx", w, pi, os_mask, pika_mask);
                        std::size_t pu_num = rp.get_pu_num(globals[w]);
                        SEQX_CHECK(pu_num < 64 && (1ul << pu_num) == os_mask, "reported-pu-differs", "live: worker %zu of pool %zu is bound to PU mask 0x%lx, the resource partitioner reports PU number %zu for it", w, pi, os_mask, pu_num);
                        for (auto prev : seen_masks) SEQX_CHECK((prev & os_mask) == 0, "shared-pu", "live: two workers share PU mask 0x%lx", os_mask);
                        seen_masks.push_back(os_mask);
                    }
                }
                SEQX_CHECK(total == (std::size_t) nt, "pool-membership", "live: %d workers requested, the pools hold %zu in total", nt, total);
                pika::finalize();
                pika::stop();
                ++seqx::g->states;
            }
}

int main(int argc, char** argv)
{
    auto o = seqx::parse(argc, argv, "C15");
    o.hang_timeout_s = 60;
    o.quiet_child = true;
    std::vector<seqx::spec> specs = {
        {"synthetic_1x2x2", [](bool) { sweep("pack:1 core:2 pu:2", 4, true); }, "pack:1 core:2 pu:2, all 15 masks"},
        {"synthetic_2x2x1", [](bool) { sweep("pack:2 core:2 pu:1", 4, true); }, "pack:2 core:2 pu:1, all masks"},
        {"synthetic_1x3x2", [](bool) { sweep("pack:1 core:3 pu:2", 6, true); }, "pack:1 core:3 pu:2, all 63 masks"},
        {"synthetic_1x2x3", [](bool) { sweep("pack:1 core:2 pu:3", 6, true); }, "pack:1 core:2 pu:3, all masks"},
        {"synthetic_2x2x2", [](bool) { sweep("pack:2 core:2 pu:2", 8, true); }, "pack:2 core:2 pu:2, all 255 masks"},
        {"synthetic_1x4x2", [](bool) { sweep("pack:1 core:4 pu:2", 8, true); }, "pack:1 core:4 pu:2, all masks"},
        {"synthetic_2x4x1", [](bool) { sweep("pack:2 core:4 pu:1", 8, true); }, "pack:2 core:4 pu:1, all masks"},
        {"synthetic_1x4x2_osnum", [](bool) { sweep("pack:1 core:4 pu:2(indexes=0,4,1,5,2,6,3,7)", 8, true); }, "pack:1 core:4 pu:2 with the OS numbering of a hyper-threaded machine (0,4,1,5,2,6,3,7): process masks are OS numbers, worker masks logical"},
        {"synthetic_2x4x2", [](bool t) { sweep("pack:2 core:4 pu:2", 16, t); }, "pack:2 core:4 pu:2 (16 PUs): structured mask family (thorough: all 65535 masks)"},
        {"live_grid", live, "real machine: thread counts x 4 binding modes x 1-2 pools, OS affinity read from each worker"},
    };
    return seqx::main_loop(o, specs,
        "grid: synthetic hwloc topologies x every non-empty process mask (16 PUs: structured family in the quick tier) x {compact, scatter, balanced, numa-balanced, none} x thread counts 1..|mask|+1 through the real affinity_data::init; live grid on the real machine",
        {"topologies up to 16 PUs, homogeneous cores", "process masks are injected with topology::set_cpubind_mask_main_thread (what --pika:process-mask does)"});
}
