// C13: pika::thread / jthread — join waits for completion and always returns; joinable/double join/
// self join; jthread destructor requests stop and joins; interruption only at interruption points
// and only while enabled.  pmc-rt, 2 workers.
#include "rt_common.h"
#include <pika/thread.hpp>
#include <pika/threading/jthread.hpp>
#include <pika/synchronization/event.hpp>
#include <memory>

struct St
{
    int body_done = 0, joined = 0, finished = 0, go = 0, in_join = 0;
    int exit_cb_runs = 0, exit_cb_registered = 0;
    int phase = 0, interrupted_phase = -1, sibling_done = 0;
};
static St* g;
static void on_stuck()
{
    if (g->in_join && g->body_done)
        pmc_fail("join-stuck", "join() has not returned although the thread function returned (body_done=%d)", g->body_done);
}

enum Body { B_RETURN, B_YIELD2, B_WAIT_FLAG, B_SPAWN_CHILD, NBODY };
// creator task creates a pika::thread; JOINER 0: the creator joins, 1: another task joins (handle handed over)
// EXITCB 1: the thread function registers an exit callback for itself (pika::threads::detail::add_thread_exit_callback);
// join() must return, after the callback ran exactly once
template <int JOINER, int EXITCB = 0>
static void join_prog()
{
    static St s;
    s = St{};
    g = &s;
    int body = EXITCB ? B_RETURN : pmc_choose(NBODY, 0);
    pmc_on_stuck(on_stuck);
    static pika::thread* th;
    th = nullptr;
    rt::start();
    rt::spawn([&, body] {
        rt::watch_self("creator");
        th = new pika::thread([&, body] {
            if (EXITCB) rt::watch_self("target"); else rt::watch_self_full("target");
            if (EXITCB)
                s.exit_cb_registered = pika::threads::detail::add_thread_exit_callback(pika::threads::detail::get_self_id(), [] {
                    pmc_point("in-exit-callback");    // an exit callback has a duration
                    ++g->exit_cb_runs;
                });
            switch (body)
            {
            case B_RETURN: break;
            case B_YIELD2: pika::this_thread::yield(); pika::this_thread::yield(); break;
            case B_WAIT_FLAG: { int guard = 0; while (!s.go && ++guard < 300) pika::this_thread::yield(); } break;
            case B_SPAWN_CHILD: { pika::thread c([&] { pika::this_thread::yield(); }); c.join(); } break;
            }
            s.body_done = 1;
            pmc_progress();
        });
        if (JOINER == 0)
        {
            s.go = 1;
            PMC_ASSERT(th->joinable(), "joinable", "fresh thread not joinable");
            s.in_join = 1;
            th->join();
            s.in_join = 0;
            PMC_ASSERT(s.body_done, "join-early", "join() returned before the thread function returned");
            if (EXITCB) PMC_ASSERT(s.exit_cb_runs >= 1, "join-early", "join() returned before the thread's exit callback ran");
            PMC_ASSERT(!th->joinable(), "joinable", "joinable() still true after join");
            bool threw = false;
            try { th->join(); } catch (pika::exception const& e) { threw = e.get_error() == pika::error::invalid_status; }
            PMC_ASSERT(threw, "double-join", "second join() did not report invalid_status");
            s.joined = 1;
        }
        ++s.finished;
    });
    if (JOINER == 1)
        rt::spawn([&] {
            rt::watch_self("joiner");
            int guard = 0;
            while (!th && ++guard < 300) pika::this_thread::yield();
            PMC_ASSERT(th != nullptr, "harness", "thread handle never published");
            s.go = 1;
            s.in_join = 1;
            th->join();
            s.in_join = 0;
            PMC_ASSERT(s.body_done, "join-early", "join() returned before the thread function returned");
            PMC_ASSERT(!th->joinable(), "joinable", "joinable() still true after join");
            s.joined = 1;
            ++s.finished;
        });
    rt::stop();
    PMC_ASSERT(s.joined == 1 && s.body_done == 1, "join-lost", "joined=%d body_done=%d", s.joined, s.body_done);
    PMC_ASSERT(s.finished == 1 + JOINER, "task-lost", "%d bodies finished", s.finished);
    if (EXITCB) PMC_ASSERT(s.exit_cb_registered && s.exit_cb_runs == 1, "exit-callback-count", "the exit callback the thread registered for itself ran %d times (registered: %d)", s.exit_cb_runs, s.exit_cb_registered);
    pmc_outcome("body=%d", body);
}

// detach, self-join
static void misc_prog()
{
    static St s;
    s = St{};
    g = &s;
    int which = pmc_choose(2, 0);
    static pika::thread* th;
    th = nullptr;
    int self_join_reported = -1, detached_ran = 0;
    rt::start();
    rt::spawn([&] {
        if (which == 0)
        {
            pika::thread t([&] { pika::this_thread::yield(); detached_ran = 1; });
            t.detach();
            PMC_ASSERT(!t.joinable(), "joinable", "joinable() true after detach");
            bool threw = false;
            try { t.join(); } catch (pika::exception const& e) { threw = e.get_error() == pika::error::invalid_status; }
            PMC_ASSERT(threw, "join-after-detach", "join() after detach did not report invalid_status");
        }
        else
        {
            int published = 0;
            th = new pika::thread([&] {
                int guard = 0;
                while (!published && ++guard < 300) pika::this_thread::yield();
                try { th->join(); self_join_reported = 0; }
                catch (pika::exception const& e) { self_join_reported = e.get_error() == pika::error::thread_resource_error; }
            });
            published = 1;
            th->join();
            PMC_ASSERT(self_join_reported == 1, "self-join", "joining oneself was not reported as thread_resource_error (%d)", self_join_reported);
        }
        ++s.finished;
    });
    rt::stop();
    PMC_ASSERT(s.finished == 1, "task-lost", "creator did not finish");
    if (which == 0) PMC_ASSERT(detached_ran == 1, "detached-lost", "detached thread did not run to completion before stop() returned");
    pmc_outcome("which=%d", which);
}

// jthread: destructor requests stop and joins
static void jthread_prog()
{
    static St s;
    s = St{};
    g = &s;
    int body = pmc_choose(2, 0);
    pmc_on_stuck(on_stuck);
    rt::start();
    rt::spawn([&, body] {
        rt::watch_self("owner");
        {
            pika::jthread jt([&, body](pika::stop_token st) {
                rt::watch_self_full("target");
                if (body == 0) { int guard = 0; while (!st.stop_requested() && ++guard < 400) pika::this_thread::yield(); PMC_ASSERT(st.stop_requested(), "jthread-no-stop", "body never observed the stop request"); }
                else pika::this_thread::yield();
                s.body_done = 1;
                pmc_progress();
            });
            if (body == 0) pika::this_thread::yield();
            s.in_join = 1;
        }    // ~jthread: request_stop + join
        s.in_join = 0;
        PMC_ASSERT(s.body_done, "jthread-destructor-early", "~jthread returned before the thread function finished");
        ++s.finished;
    });
    rt::stop();
    PMC_ASSERT(s.finished == 1, "task-lost", "owner did not finish");
    pmc_outcome("body=%d", body);
}

// jthread handle operations: two jthreads (the second one possibly empty) are swapped / move-assigned, then the
// first one is destroyed: exactly the thread it represents *now* gets the stop request and is joined; the
// thread the other handle represents keeps running until that handle is destroyed
#include <pika/condition_variable.hpp>
#include <pika/mutex.hpp>
static void jthread_handles_prog()
{
    static St s;
    s = St{};
    g = &s;
    int op = pmc_choose(4, 0);          // 0 nothing, 1 a.swap(b), 2 swap(a, b), 3 b = std::move(a) (b empty)
    int b_empty = pmc_choose(2, 0);
    static int done[2], stop_seen[2];
    done[0] = done[1] = stop_seen[0] = stop_seen[1] = 0;
    pmc_on_stuck(on_stuck);
    rt::start();
    rt::spawn([&, op, b_empty] {
        rt::watch_self("owner");
        static pika::mutex m;
        static pika::condition_variable_any cv;
        auto body = [](int idx) {
            return [idx](pika::stop_token st) {
                std::unique_lock<pika::mutex> l(m);
                cv.wait(l, st, [] { return false; });    // returns only with a stop request
                stop_seen[idx] = st.stop_requested();
                done[idx] = 1;
                pmc_progress();
            };
        };
        int rep_a = 0, rep_b = b_empty ? -1 : 1;    // model: which thread each handle represents (-1: none)
        {
            pika::jthread b;
            if (!b_empty) b = pika::jthread(body(1));
            {
                pika::jthread a(body(0));
                switch (op)
                {
                case 1: a.swap(b); std::swap(rep_a, rep_b); break;
                case 2: swap(a, b); std::swap(rep_a, rep_b); break;
                case 3:
                    // move assignment onto an empty handle only (the statement says nothing about assigning to a
                    // joinable jthread; pika's defaulted operator terminates there, like std::thread)
                    if (b_empty) { b = std::move(a); rep_b = rep_a; rep_a = -1; }
                    break;
                }
                PMC_ASSERT(a.joinable() == (rep_a >= 0) && b.joinable() == (rep_b >= 0), "jthread-joinable", "after handle operation %d: a.joinable()=%d (model %d), b.joinable()=%d (model %d)", op, (int) a.joinable(), rep_a >= 0, (int) b.joinable(), rep_b >= 0);
                s.in_join = 1;
                s.body_done = 1;    // for on_stuck: the destructor below has everything it needs to return
            }    // ~a
            s.in_join = 0;
            if (rep_a >= 0) PMC_ASSERT(done[rep_a] == 1 && stop_seen[rep_a] == 1, "jthread-destructor-early", "~jthread returned but the thread it represented (%d) has not finished with a stop request (done=%d)", rep_a, done[rep_a]);
            if (rep_b >= 0) PMC_ASSERT(done[rep_b] == 0, "jthread-wrong-stop", "destroying one jthread stopped the thread (%d) that another, living jthread represents", rep_b);
            s.in_join = 1;
        }    // ~b
        s.in_join = 0;
        for (int i = 0; i < 2; ++i)
            if (i == 0 || !b_empty) PMC_ASSERT(done[i] == 1 && stop_seen[i] == 1, "jthread-destructor-early", "thread %d did not end with a stop request (done=%d)", i, done[i]);
        ++s.finished;
    });
    rt::stop();
    PMC_ASSERT(s.finished == 1, "task-lost", "owner did not finish");
    pmc_outcome("op=%d b_empty=%d", op, b_empty);
}

// interruption: delivered only at interruption points, only while enabled; siblings unaffected
static void interrupt_prog()
{
    static St s;
    s = St{};
    g = &s;
    int early = pmc_choose(2, 0);    // interrupt issued before / after the target announced phase 3
    pmc_on_stuck(on_stuck);
    rt::start();
    rt::spawn([&, early] {
        rt::watch_self("owner");
        pika::thread sibling([&] { pika::this_thread::yield(); pika::this_thread::interruption_point(); pika::this_thread::yield(); s.sibling_done = 1; });
        pika::thread t([&] {
            rt::watch_self_full("target");
            try
            {
                {
                    pika::this_thread::disable_interruption di;
                    s.phase = 1;
                    { pika::this_thread::disable_interruption nested; }    // a helper with its own guard: the outer one still holds
                    pika::this_thread::yield();
                    pika::this_thread::interruption_point();    // disabled: must not throw
                    pika::this_thread::yield();
                    s.phase = 2;
                }
                s.phase = 3;
                // suspension (a yield through this_thread::suspend) is an interruption point as well;
                // pika::this_thread::yield() itself is noexcept - see spec interrupt_in_noexcept_yield
                for (int i = 0; i < 300; ++i)
                {
                    pika::this_thread::interruption_point();
                    pika::this_thread::suspend(pika::threads::detail::thread_schedule_state::pending, "C13 harness");
                }
                s.phase = 4;    // never interrupted
            }
            catch (pika::thread_interrupted const&)
            {
                s.interrupted_phase = s.phase;
                s.body_done = 1;
                pmc_progress();
                throw;
            }
            s.body_done = 1;
        });
        if (!early) { int guard = 0; while (s.phase < 3 && ++guard < 300) pika::this_thread::yield(); }
        t.interrupt();
        s.in_join = 1;
        t.join();
        s.in_join = 0;
        sibling.join();
        PMC_ASSERT(s.interrupted_phase == 3, "interrupt-delivery", "interruption was observed in phase %d (expected: at an interruption point of phase 3, after the disabled window)", s.interrupted_phase);
        PMC_ASSERT(s.sibling_done == 1, "interrupt-sibling", "sibling thread was affected by the interruption");
        ++s.finished;
    });
    rt::stop();
    PMC_ASSERT(s.finished == 1, "task-lost", "owner did not finish");
    pmc_outcome("early=%d phase=%d", early, s.interrupted_phase);
}

// an interruption request issued while the target has interruption disabled and is blocked: the request is
// refused (thread_not_interruptable) and must not touch the target - its wait ends only when it is released
static void interrupt_while_disabled_prog()
{
    static St s;
    s = St{};
    g = &s;
    static int released, woke_before_release, other_exception, finished_normally, rejected, accepted;
    released = woke_before_release = other_exception = finished_normally = rejected = accepted = 0;
    auto& ev = *new pika::experimental::event;
    pmc_on_stuck(on_stuck);
    rt::start();
    rt::spawn([&] {
        rt::watch_self("owner");
        pika::thread t([&] {
            rt::watch_self_full("target");
            try
            {
                pika::this_thread::disable_interruption di;
                s.phase = 1;
                ev.wait();    // suspended, interruption disabled
                if (!released) woke_before_release = 1;
                s.phase = 2;
                finished_normally = 1;
            }
            catch (pika::thread_interrupted const&) { s.interrupted_phase = s.phase; }
            catch (...) { other_exception = 1; }
            s.body_done = 1;
            pmc_progress();
        });
        int guard = 0;
        while (s.phase < 1 && ++guard < 300) pika::this_thread::yield();
        try { t.interrupt(); accepted = 1; }
        catch (pika::exception const& e) { rejected = e.get_error() == pika::error::thread_not_interruptable; }
        for (int i = 0; i < 2; ++i) pika::this_thread::yield();
        released = 1;
        ev.set();
        s.in_join = 1;
        t.join();
        s.in_join = 0;
        ++s.finished;
    });
    rt::stop();
    PMC_ASSERT(s.finished == 1 && s.body_done, "task-lost", "owner finished %d, target body done %d", s.finished, s.body_done);
    PMC_ASSERT(rejected && !accepted, "interrupt-while-disabled", "interrupt() of a thread that has interruption disabled was not refused (accepted %d, refused with thread_not_interruptable %d)", accepted, rejected);
    PMC_ASSERT(!woke_before_release && !other_exception && s.interrupted_phase == -1 && finished_normally, "interrupt-delivery",
        "a refused interruption request disturbed the target: woke before its release %d, foreign exception %d, interrupted in phase %d, finished normally %d", woke_before_release, other_exception, s.interrupted_phase, finished_normally);
    pmc_outcome("rejected=%d", rejected);
}

// an interruption request must end only its target: a request that arrives after the target's last
// interruption point must not hit the unrelated thread that later reuses the target's thread object
static void interrupt_not_inherited_prog()
{
    static St s;
    s = St{};
    g = &s;
    int yields_before_interrupt = pmc_choose(3, 0);
    int successors = 1 + pmc_choose(2, 0);
    static int completed, born_requested;
    completed = born_requested = 0;
    rt::config c;
    c.workers = 1 + pmc_choose(2, 0);
    c.extra = {"pika.thread_queue.max_terminated_threads=0"};    // recycle terminated thread objects at once
    rt::start(c);
    rt::spawn([&, yields_before_interrupt, successors] {
        {
            pika::thread a([] { pika::this_thread::suspend(pika::threads::detail::thread_schedule_state::pending, "C13 target"); });
            for (int i = 0; i < yields_before_interrupt; ++i) pika::this_thread::yield();
            a.interrupt();
            a.join();
        }
        pika::this_thread::yield();
        for (int v = 0; v < successors; ++v)
        {
            pika::thread b([&] {
                if (pika::this_thread::interruption_requested()) ++born_requested;
                pika::this_thread::interruption_point();    // an unrelated thread: must not be interrupted
                pika::this_thread::suspend(pika::threads::detail::thread_schedule_state::pending, "C13 successor");
                ++completed;
            });
            b.join();
        }
        ++g->finished;
    });
    rt::stop();
    PMC_ASSERT(s.finished == 1, "task-lost", "owner did not finish");
    PMC_ASSERT(completed == successors && born_requested == 0, "interrupt-affects-others", "an interruption request aimed at a finished thread ended %d of %d unrelated later threads (%d started with the request pending)", successors - completed, successors, born_requested);
    pmc_outcome("ybi=%d n=%d", yields_before_interrupt, successors);
}

// An interruption that is delivered inside pika::this_thread::yield() (declared noexcept, but it
// suspends through an interruption point) terminates the whole process instead of ending the thread.
static void interrupt_in_yield_prog()
{
    static St s;
    s = St{};
    g = &s;
    rt::start();
    rt::spawn([&] {
        rt::watch_self("owner");
        pika::thread t([&] {
            rt::watch_self_full("target");
            s.phase = 3;
            for (int i = 0; i < 300; ++i) pika::this_thread::yield();
            s.phase = 4;
        });
        int guard = 0;
        while (s.phase < 3 && ++guard < 300) pika::this_thread::yield();
        t.interrupt();
        t.join();
        ++s.finished;
    });
    rt::stop();
    PMC_ASSERT(s.finished == 1, "task-lost", "owner did not finish");
    pmc_outcome("phase=%d", s.phase);
}

int main(int argc, char** argv)
{
    static const char* sites = "thread_data::(add_thread_exit_callback|run_thread_exit_callbacks|free_thread_exit_callbacks)|pika::thread::(join|start_thread|thread_function_nullary)|run_thread_exit_callbacks|set_thread_state|set_active_state|interrupt_thread|stop_state::";
    static const char* focus = "F-addr: creator/joiner state words, whole thread_data of the target; F-site: exit-callback registration/run, thread::join, set_thread_state, interrupt_thread, stop_state";
    static const char* xsites = "thread_data::(add_thread_exit_callback|run_thread_exit_callbacks)|pika::thread::join";
    static const char* xfocus = "F-addr: state words of creator/joiner/target; F-site: exit-callback registration and run, thread::join; harness point inside the exit callback";
    static const pmc_spec specs[] = {
        {"join_by_creator", join_prog<0>, 1, 2, 0.3, 0.3, 1, focus, sites, nullptr},
        {"join_by_other_task", join_prog<1>, 1, 2, 0.2, 0.25, 1, focus, sites, nullptr},
        {"join_with_exit_callback", join_prog<0, 1>, 2, 3, 0.3, 0.15, 1, xfocus, xsites, nullptr},
        {"join_with_exit_callback_other", join_prog<1, 1>, 2, 3, 0.3, 0.15, 1, xfocus, xsites, nullptr},
        {"detach_selfjoin", misc_prog, 1, 2, 0.1, 0.1, 1, focus, sites, nullptr},
        {"jthread_destructor", jthread_prog, 1, 2, 0.2, 0.15, 1, focus, sites, nullptr},
        {"jthread_handles", jthread_handles_prog, 1, 2, 0.15, 0.1, 1, focus, sites, nullptr},
        {"interrupt", interrupt_prog, 1, 2, 0.2, 0.2, 1, focus, sites, nullptr},
        {"interrupt_not_inherited", interrupt_not_inherited_prog, 1, 2, 0.15, 0.15, 1, focus, sites, nullptr},
        {"interrupt_while_disabled", interrupt_while_disabled_prog, 1, 2, 0.1, 0.1, 1, focus, sites, nullptr},
        {"interrupt_in_noexcept_yield", interrupt_in_yield_prog, 0, 1, 0.02, 0.02, 0, focus, sites, nullptr},
    };
    static const char* assumptions[] = {"sequentially consistent interleavings only", "2 worker threads"};
    pmc_config cfg{};
    cfg.property_id = "C13";
    cfg.rule = "target bodies {return, yield x2, wait for flag, spawn+join child} x joiner {creator, other task} x all schedules within the deviation bound; detach / double join / self join; jthread destructor; interrupt with a disabled window";
    cfg.assumptions = assumptions;
    cfg.n_assumptions = 2;
    cfg.warmup = rt::warmup;
    cfg.quick_budget_s = 100;
    cfg.thorough_budget_s = 900;
    return pmc_main(argc, argv, &cfg, specs, sizeof specs / sizeof specs[0]);
}
