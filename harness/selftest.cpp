// Engine self-checks: toy programs with a known verdict (DESIGN.md §8).
#include "../rt/pmc.h"
#include <atomic>
#include <condition_variable>
#include <mutex>
#include <thread>
#include <cstdio>
#include <cstring>

// 1. lost update: two threads do load;store on a watched atomic -> must be found at bound 1
static void lost_update()
{
    std::atomic<int> x{0};
    pmc_watch(&x, sizeof x, "x");
    auto inc = [&] { int v = x.load(); x.store(v + 1); };
    std::thread a(inc), b(inc);
    a.join();
    b.join();
    PMC_ASSERT(x.load() == 2, "lost-update", "x=%d", x.load());
}
// 2. correct counter: fetch_add -> must pass at every bound
static void good_counter()
{
    std::atomic<int> x{0};
    pmc_watch(&x, sizeof x, "x");
    auto inc = [&] { x.fetch_add(1); x.fetch_add(1); };
    std::thread a(inc), b(inc), c(inc);
    a.join();
    b.join();
    c.join();
    PMC_ASSERT(x.load() == 6, "counter", "x=%d", x.load());
    pmc_outcome("x=%d", x.load());
}
// 3. AB/BA deadlock on pthread mutexes
static void abba()
{
    std::mutex A, B;
    pmc_watch(&A, sizeof A, "A");
    pmc_watch(&B, sizeof B, "B");
    std::thread a([&] { std::lock_guard l(A); std::lock_guard m(B); });
    std::thread b([&] { std::lock_guard l(B); std::lock_guard m(A); });
    a.join();
    b.join();
}
// 4. missed signal: waiter checks flag without holding the lock protocol correctly
static void missed_signal()
{
    std::mutex m;
    std::condition_variable cv;
    std::atomic<bool> flag{false};
    pmc_watch(&flag, sizeof flag, "flag");
    pmc_focus_pthread(1);
    std::thread w([&] {
        if (!flag.load())
        {
            std::unique_lock l(m);
            cv.wait(l);    // no predicate re-check: signal may have been sent already
        }
    });
    std::thread s([&] { flag.store(true); std::lock_guard l(m); cv.notify_one(); });
    w.join();
    s.join();
}
// 5. correct cv protocol with a timed wait and a spin loop: must pass
static void good_cv()
{
    std::mutex m;
    std::condition_variable cv;
    bool ready = false;
    std::atomic<int> stage{0};
    pmc_watch(&stage, sizeof stage, "stage");
    std::thread w([&] {
        std::unique_lock l(m);
        while (!ready) cv.wait_for(l, std::chrono::milliseconds(50));
        stage.store(1);
    });
    std::thread s([&] { { std::lock_guard l(m); ready = true; } cv.notify_one(); });
    std::thread sp([&] { while (stage.load() == 0) std::this_thread::yield(); stage.store(2); });
    w.join();
    s.join();
    sp.join();
    PMC_ASSERT(stage.load() == 2, "stage", "stage=%d", stage.load());
}
// 6. spin forever on a flag nobody sets: must be reported stuck
static void livelock()
{
    std::atomic<int> f{0};
    pmc_watch(&f, sizeof f, "f");
    std::thread a([&] { while (f.load() == 0) std::this_thread::yield(); });
    a.join();
}
// 7. data choice + deadline jump: a timed wait may time out only via a deviation or last resort
static void timed()
{
    std::mutex m;
    std::condition_variable cv;
    pmc_watch(&cv, sizeof cv, "cv");
    std::atomic<int> go{0};
    pmc_watch(&go, sizeof go, "go");
    bool ready = false, timedout = false;
    std::thread w([&] {
        std::unique_lock l(m);
        timedout = !cv.wait_for(l, std::chrono::milliseconds(100), [&] { return ready; });
    });
    std::thread s([&] { go.store(1); go.store(2); { std::lock_guard l(m); ready = true; } cv.notify_one(); });
    w.join();
    s.join();
    pmc_outcome("timedout=%d", (int) timedout);
}

int main(int argc, char** argv)
{
    static const pmc_spec specs[] = {
        {"lost_update", lost_update, 1, 2, 1, 1, 1, "atomic x"},
        {"good_counter", good_counter, 2, 3, 1, 1, 1, "atomic x"},
        {"abba", abba, 1, 2, 1, 1, 1, "mutexes A,B"},
        {"missed_signal", missed_signal, 1, 2, 1, 1, 1, "flag"},
        {"good_cv", good_cv, 2, 3, 1, 1, 1, "stage"},
        {"livelock", livelock, 0, 1, 1, 1, 0, "f"},
        {"timed", timed, 2, 2, 1, 1, 1, "cv, go"},
    };
    pmc_config cfg{};
    cfg.property_id = "selftest";
    cfg.rule = "toy programs";
    cfg.quick_budget_s = 60;
    cfg.thorough_budget_s = 120;
    return pmc_main(argc, argv, &cfg, specs, 7);
}
