// C09, model conformance: the event histories of the real pika::barrier on plain OS threads, projected
// onto the alphabet of models/barrier.pml (phase load P, ticket CAS C, adjustment fetch_sub D / load A /
// store Z, phase store S, successful wait W).  The explorer dumps every distinct history
// (--dump-outcomes); scripts/barrier_conformance.py compares the set with the histories Spin enumerates
// from the model for the same configuration.
#include "pmc.h"
#include <pika/barrier.hpp>
#include <cstdio>
#include <string>
#include <thread>
#include <vector>

template <int P, int PHASES, int DROPPER>
static void conf_prog()
{
    static int completions;
    completions = 0;
    auto completion = [] { ++completions; };
    using bar_t = pika::barrier<decltype(completion)>;
    auto& bar = *new bar_t(P, completion);
    using state_t = pika::detail::barrier_algorithm_base::state_t;
    pmc_watch(&bar, sizeof bar, "barrier");
    pmc_watch(bar.base.state.get(), sizeof(state_t) * ((P + 1) >> 1), "tickets");
    pmc_event_log(1);
    std::vector<std::thread> th;
    for (int p = 0; p < P; ++p)
        th.emplace_back([&bar, p] {
            for (int k = 0; k < PHASES; ++k)
            {
                if (p == DROPPER && k == 0) { bar.arrive_and_drop(); return; }
                auto tok = bar.arrive();
                pmc_event_mark(1);
                bar.wait(std::move(tok));
                pmc_event_mark(2);
            }
        });
    for (auto& x : th) x.join();
    pmc_event_log(0);
    // projection
    unsigned const off_phase = (unsigned) ((char*) &bar.phase - (char*) &bar);
    unsigned const off_adj = (unsigned) ((char*) &bar.expected_adjustment - (char*) &bar);
    std::string out;
    int in_wait[8] = {0}, old_phase[8] = {0}, waited[8] = {0};
    char buf[64];
    for (int i = 0, n = pmc_event_count(); i < n; ++i)
    {
        int tid, kind, changed, watch;
        unsigned off;
        unsigned long long val;
        pmc_event_get(i, &tid, &kind, &changed, &watch, &off, &val);
        int p = tid - 1;
        PMC_ASSERT(p >= 0 && p < P, "harness", "event of unexpected thread %d", tid);
        buf[0] = 0;
        if (kind == 0) { in_wait[p] = off == 1; waited[p] = 0; continue; }
        if (watch == 0 && off == off_phase)
        {
            if (kind == 1)
            {
                if (in_wait[p]) { if ((int) (val & 0xff) != old_phase[p] && !waited[p]) { waited[p] = 1; snprintf(buf, sizeof buf, "%dW%d ", p, (int) (val & 0xff)); } }
                else { old_phase[p] = (int) (val & 0xff); snprintf(buf, sizeof buf, "%dP%d ", p, old_phase[p]); }
            }
            else if (kind == 2) snprintf(buf, sizeof buf, "%dS%d ", p, (int) (val & 0xff));
            else PMC_ASSERT(false, "harness", "unexpected operation kind %d on phase", kind);
        }
        else if (watch == 0 && off == off_adj)
        {
            if (kind == 3) snprintf(buf, sizeof buf, "%dD%lld ", p, (long long) val);
            else if (kind == 1) snprintf(buf, sizeof buf, "%dA%lld ", p, (long long) val);
            else if (kind == 2) snprintf(buf, sizeof buf, "%dZ ", p);
        }
        else if (watch == 1)
        {
            int node = (int) (off / sizeof(state_t)), round = (int) (off % sizeof(state_t));
            PMC_ASSERT(kind == 4, "harness", "unexpected operation kind %d on a ticket", kind);
            snprintf(buf, sizeof buf, "%dC%d%d:%d%c ", p, node, round, (int) (val & 0xff), changed ? '+' : '-');
        }
        else PMC_ASSERT(false, "harness", "operation on an unmodelled field (watch %d offset %u)", watch, off);
        out += buf;
    }
    PMC_ASSERT(completions == PHASES, "barrier-completion-count", "completion function ran %d times in %d phases", completions, PHASES);
    pmc_outcome("%s", out.c_str());
}

int main(int argc, char** argv)
{
    static const char* focus = "F-addr: the barrier object (phase, expected_adjustment) and its ticket array; all interleavings (deviation bound above the number of choice points)";
    static const pmc_spec specs[] = {
        {"n2_ph1", conf_prog<2, 1, 255>, 64, 64, 0.1, 0.05, 1, focus, nullptr, nullptr},
        {"n2_ph2", conf_prog<2, 2, 255>, 64, 64, 0.2, 0.1, 1, focus, nullptr, nullptr},
        {"n2_ph2_drop0", conf_prog<2, 2, 0>, 64, 64, 0.1, 0.05, 1, focus, nullptr, nullptr},
        {"n3_ph1", conf_prog<3, 1, 255>, 2, 64, 0.3, 0.4, 1, focus, nullptr, nullptr},
        {"n3_ph1_drop1", conf_prog<3, 1, 1>, 2, 64, 0.3, 0.4, 1, focus, nullptr, nullptr},
    };
    static const char* assumptions[] = {"sequentially consistent interleavings only", "participants are plain OS threads (start node 0)"};
    pmc_config cfg{};
    cfg.property_id = "C09";
    cfg.rule = "all interleavings (n2 configurations; n3: within the deviation bound) of the atomic operations of pika::barrier; each execution's event history is dumped for the comparison with the Promela model";
    cfg.assumptions = assumptions;
    cfg.n_assumptions = 2;
    cfg.quick_budget_s = 60;
    cfg.thorough_budget_s = 600;
    return pmc_main(argc, argv, &cfg, specs, sizeof specs / sizeof specs[0]);
}
