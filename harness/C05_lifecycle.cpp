// C05: runtime life cycle — wait()/stop() drain all work, stop() waits for finalize() and returns the
// entry function's result, restart with a different configuration, suspend()/resume().  pmc-rt.
#include "rt_common.h"
#include <thread>

static const int NT = 8;
struct Ledger
{
    int entered[NT] = {0}, left[NT] = {0};
    int submitted = 0, finalize_called = 0;
    int in_window = 0, ran_in_window = 0;
    int all_done(int from, int to) const { for (int i = from; i < to; ++i) if (left[i] != 1) return 0; return 1; }
};
static Ledger* g;
static int g_phase;
static void on_stuck()
{
    char b[160];
    int n = 0;
    for (int i = 0; i < NT; ++i) n += snprintf(b + n, sizeof b - n, " %d/%d", g->entered[i], g->left[i]);
    pmc_fail("call-stuck", "a life-cycle call did not return (phase %d; finalize_called=%d; entered/left per task:%s)", g_phase, g->finalize_called, b);
}
struct Enter
{
    int id;
    explicit Enter(int i) : id(i) { ++g->entered[id]; if (g->in_window) ++g->ran_in_window; }
    ~Enter() { ++g->left[id]; }
};
// a chain: task `first` yields, spawns first+1, ..., up to `last` (every task those tasks spawn)
static void submit_chain(int first, int last)
{
    ++g->submitted;
    rt::spawn([first, last] {
        Enter e(first);
        pika::this_thread::yield();
        if (first < last) submit_chain(first + 1, last);
    });
}

static const char* pol[] = {"local-priority-fifo", "static-priority", "abp-priority-lifo", "local"};

// 1: wait() drains; finalize+stop drain; restart with another configuration; entry function result
static void wait_stop_restart()
{
    static Ledger L;
    L = Ledger{};
    g = &L;
    int p1 = pmc_choose(2, 0), p2 = 2 + pmc_choose(2, 0);
    // 1: the entry function of incarnation 2 calls finalize() first and keeps working (spawns, yields) before it
    // returns its result: stop() is woken by the finalize signal long before the result exists
    static int early;
    early = pmc_choose(2, 0);
    pmc_on_stuck(on_stuck);
    // incarnation 1: 2 workers
    {
        rt::config c;
        c.workers = 2;
        c.scheduler = pol[p1];
        g_phase = 1;
        rt::start(c);
        submit_chain(0, 2);
        g_phase = 2;
        pika::wait();
        PMC_ASSERT(L.all_done(0, 3), "wait-returned-early", "pika::wait() returned while submitted tasks (or tasks they spawned) had not finished: left = %d %d %d", L.left[0], L.left[1], L.left[2]);
        submit_chain(3, 4);
        g_phase = 3;
        pika::finalize();
        L.finalize_called = 1;
        int r = pika::stop();
        PMC_ASSERT(L.all_done(0, 5), "stop-returned-early", "pika::stop() returned before all work of the incarnation was done");
        PMC_ASSERT(r == 0, "stop-result", "stop() returned %d for a runtime started without entry function", r);
    }
    // incarnation 2: different worker count and policy, entry function with a result
    {
        static const char* argv[] = {"harness", nullptr};
        pika::init_params ip;
        ip.cfg = {"pika.os_threads=1", "pika.max_idle_loop_count=4", "pika.max_busy_loop_count=4", "pika.bind=none", std::string("pika.scheduler=") + pol[p2]};
        g_phase = 4;
        L.finalize_called = 0;
        pika::start(
            [](int, char**) -> int {
                if (early)
                {
                    g->finalize_called = 1;
                    pika::finalize();
                }
                submit_chain(5, 7);
                pika::this_thread::yield();
                if (early)
                {
                    while (!g->all_done(5, 8)) pika::this_thread::yield();
                    pika::this_thread::yield();
                    return 42;
                }
                g->finalize_called = 1;
                pika::finalize();
                return 42;
            },
            1, argv, ip);
        g_phase = 5;
        int r = pika::stop();
        PMC_ASSERT(L.finalize_called, "stop-before-finalize", "stop() returned although finalize() had not been called");
        PMC_ASSERT(L.all_done(5, 8), "restart-incomplete", "second incarnation did not run its own work completely: left = %d %d %d", L.left[5], L.left[6], L.left[7]);
        PMC_ASSERT(r == 42, "stop-result", "stop() returned %d, the entry function returned 42", r);
    }
    pmc_outcome("ok early=%d", early);
}

// pika::wait() with the non-default queue policies (local, static: local_queue_scheduler has its own
// create_thread accounting): a task that spawns children; wait() may return only when all of them are done
static void wait_local_policies()
{
    static Ledger L;
    L = Ledger{};
    g = &L;
    static const char* lp[] = {"local", "static"};
    int p = pmc_choose(2, 0);
    int last = 1 + pmc_choose(2, 0);    // chain 0 -> 1 (-> 2)
    pmc_on_stuck(on_stuck);
    rt::config c;
    c.workers = 2;
    c.scheduler = lp[p];
    g_phase = 1;
    rt::start(c);
    submit_chain(0, last);
    g_phase = 2;
    pika::wait();
    PMC_ASSERT(L.all_done(0, last + 1), "wait-returned-early", "pika::wait() returned while submitted tasks (or tasks they spawned) had not finished (policy %s): left = %d %d %d", lp[p], L.left[0], L.left[1], L.left[2]);
    g_phase = 3;
    rt::stop();
    pmc_outcome("policy=%s last=%d", lp[p], last);
}

// "started again any number of times": five incarnations in a row (plus the warm-up incarnation that ran
// before the execution was forked), alternating worker counts and policies, each running its own work
static void restart_many()
{
    static Ledger L;
    L = Ledger{};
    g = &L;
    int first_policy = pmc_choose(4, 0);
    pmc_on_stuck(on_stuck);
    for (int inc = 0; inc < 5; ++inc)
    {
        rt::config c;
        c.workers = 1 + (inc & 1);
        c.scheduler = pol[(first_policy + inc) % 4];
        g_phase = 10 + inc;
        L = Ledger{};
        try { rt::start(c); }
        catch (std::exception const& e) { pmc_fail("restart-failed", "incarnation %d (after %d earlier start/stop cycles in this process) could not be started: %.200s", inc + 2, inc + 1, e.what()); }
        submit_chain(0, 1);
        pika::finalize();
        L.finalize_called = 1;
        int r = pika::stop();
        PMC_ASSERT(L.all_done(0, 2), "restart-incomplete", "incarnation %d did not run its own work completely: left = %d %d", inc + 2, L.left[0], L.left[1]);
        PMC_ASSERT(r == 0, "stop-result", "stop() of incarnation %d returned %d", inc + 2, r);
    }
    pmc_outcome("ok");
}

// 2: stop() is entered before finalize(); a non-pika thread submits work and then finalizes
static void stop_before_finalize()
{
    static Ledger L;
    L = Ledger{};
    g = &L;
    int depth = 1 + pmc_choose(2, 0);
    int entry = pmc_choose(2, 0);    // 1: started with an entry function that returns 7 and does not finalize
    pmc_on_stuck(on_stuck);
    rt::config c;
    c.workers = 2;
    g_phase = 1;
    if (!entry) rt::start(c);
    else
    {
        static const char* argv[] = {"harness", nullptr};
        pika::init_params ip;
        ip.cfg = {"pika.os_threads=2", "pika.max_idle_loop_count=4", "pika.max_busy_loop_count=4", "pika.bind=none", "pika.install_signal_handlers=0", "pika.diagnostics_on_terminate=0"};
        pika::start([](int, char**) -> int { return 7; }, 1, argv, ip);
    }
    std::thread side([depth] {
        submit_chain(0, depth);
        submit_chain(4, 4 + depth);
        g->finalize_called = 1;
        pika::finalize();
    });
    g_phase = 2;
    int r = pika::stop();
    PMC_ASSERT(L.finalize_called, "stop-before-finalize", "stop() returned although finalize() had not been called");
    for (int i = 0; i <= depth; ++i)
        PMC_ASSERT(L.left[i] == 1 && L.left[4 + i] == 1, "stop-returned-early", "stop() returned but task %d/%d submitted before finalize() did not run to completion (%d, %d)", i, 4 + i, L.left[i], L.left[4 + i]);
    PMC_ASSERT(r == (entry ? 7 : 0), "stop-result", "stop() returned %d, the entry function's result is %d", r, entry ? 7 : 0);
    g_phase = 3;
    side.join();
    pmc_outcome("depth=%d entry=%d", depth, entry);
}

// 3: suspend()/resume(): no body executes while suspended, queued work runs after resume
static void suspend_resume()
{
    static Ledger L;
    L = Ledger{};
    g = &L;
    int pi = pmc_choose(2, 0);
    int again = pmc_choose(2, 0);    // 1: suspend; resume; suspend back to back before the work is queued
    pmc_on_stuck(on_stuck);
    rt::config c;
    c.workers = 2;
    c.scheduler = pol[pi];
    g_phase = 1;
    rt::start(c);
    submit_chain(0, 1);
    g_phase = 2;
    pika::suspend();
    PMC_ASSERT(L.all_done(0, 2), "suspend-returned-early", "suspend() returned while submitted work was unfinished");
    if (again)
    {
        pika::resume();
        pika::suspend();    // must not return before every worker sleeps again
    }
    L.in_window = 1;
    submit_chain(2, 3);                       // queued while the runtime sleeps
    for (int i = 0; i < 3; ++i) sched_yield();    // give (wrongly) awake workers a chance
    PMC_ASSERT(L.ran_in_window == 0 && L.entered[2] == 0, "ran-while-suspended", "a task body executed while the runtime was suspended");
    L.in_window = 0;
    g_phase = 3;
    pika::resume();
    g_phase = 4;
    pika::wait();
    PMC_ASSERT(L.all_done(2, 4), "queued-work-lost", "work queued during suspension did not run after resume(): left = %d %d", L.left[2], L.left[3]);
    g_phase = 5;
    rt::stop();
    pmc_outcome("again=%d", again);
}

int main(int argc, char** argv)
{
    static const char* sites = "global_activity_count|thread_manager::(wait|stop|suspend|resume|is_busy)|scheduled_thread_pool|scheduler_base::(suspend|resume|idle_callback|do_some_work|set_all_states|has_reached_state)|runtime::(wait|stop|finalize|notify_finalize|wait_finalize|suspend|resume)|create_thread|destroy_thread";
    static const char* focus = "F-site (stores, rmw, cas): global activity count, thread_manager wait/stop/suspend/resume, scheduled_thread_pool state machine, scheduler_base suspend/resume, runtime wait/stop/finalize, create_thread/destroy_thread accounting; pthread blocking points of the runtime are always scheduling decisions";
    static const pmc_spec specs[] = {
        {"wait_stop_restart", wait_stop_restart, 2, 3, 0.4, 0.4, 1, focus, sites, "src"},
        {"stop_before_finalize", stop_before_finalize, 1, 3, 0.3, 0.3, 1, focus, sites, "src"},
        {"suspend_resume", suspend_resume, 2, 3, 0.3, 0.3, 1, focus, sites, "src"},
        {"wait_local_policies", wait_local_policies, 2, 3, 0.15, 0.1, 1, focus, sites, "src"},
        {"restart_many", restart_many, 0, 1, 0.05, 0.05, 0, focus, sites, "src"},
    };
    static const char* assumptions[] = {"sequentially consistent interleavings only", "1-2 worker threads; policies local-priority-fifo, static-priority, abp-priority-lifo, local, static"};
    pmc_config cfg{};
    cfg.property_id = "C05";
    cfg.rule = "life-cycle histories {start, submit chains that spawn, wait, finalize, stop, restart with another configuration and an entry function, five restarts in a row, stop entered before finalize with an external submitter, suspend, [resume, suspend,] submit, resume} x policies (data choices) x all schedules within the deviation bound";
    cfg.assumptions = assumptions;
    cfg.n_assumptions = 2;
    cfg.warmup = rt::warmup;
    cfg.quick_budget_s = 120;
    cfg.thorough_budget_s = 900;
    cfg.exec_timeout_s = 30;
    return pmc_main(argc, argv, &cfg, specs, sizeof specs / sizeof specs[0]);
}
