// C01: every submitted task runs exactly once, on one worker at a time.  pmc-rt: task trees with
// yields, boosted yields, suspensions, spawns from inside and outside the runtime, all 8 scheduling
// policies, 1-2 workers.
#include "rt_common.h"
#include <pika/synchronization/event.hpp>
#include <pika/execution_base/this_thread.hpp>
#include <pika/thread.hpp>
#include <pika/threading_base/set_thread_state.hpp>
#include <pika/threading_base/thread_helpers.hpp>
#include <memory>
#include <thread>

enum Phase { P_WORK, P_YIELD, P_BOOST_YIELD, P_SUSPEND, NPHASE };
static const int NT = 4;    // root + up to 3 children
struct Ledger
{
    int entered[NT] = {0}, left[NT] = {0}, running[NT] = {0};
    int spawned = 0;
};
static Ledger* g;
static void on_stuck()
{
    char b[200];
    int n = 0;
    for (int i = 0; i < NT; ++i) n += snprintf(b + n, sizeof b - n, " t%d:%d/%d", i, g->entered[i], g->left[i]);
    pmc_fail("task-dropped", "runtime quiescent but not every submitted task ran to completion (entered/left:%s, %d spawned)", b, g->spawned);
}
struct Enter
{
    int id;
    explicit Enter(int i) : id(i)
    {
        ++g->entered[id];
        PMC_ASSERT(g->entered[id] == 1, "started-twice", "body of task %d entered %d times", id, g->entered[id]);
        PMC_ASSERT(++g->running[id] == 1, "two-workers", "task %d is executing on two workers at once", id);
    }
    void resume() { PMC_ASSERT(++g->running[id] == 1, "two-workers", "task %d is executing on two workers at once after a switch", id); }
    void pause() { --g->running[id]; }
    ~Enter() { --g->running[id]; ++g->left[id]; }
};

static const char* policies[] = {"local-priority-fifo", "local", "local-priority-lifo", "static", "static-priority", "abp-priority-fifo", "abp-priority-lifo", "shared-priority"};

template <int POLICY, int W, int NCHILD, bool FULLWATCH = false, bool REDUCED = false>
static void tree_prog()
{
    static Ledger L;
    L = Ledger{};
    g = &L;
    int word = pmc_choose(NPHASE * NPHASE, 0);
    int ph[2] = {word % NPHASE, word / NPHASE};
    int mech = REDUCED ? (word & 1) : pmc_choose(2, 0);    // children via execute(scheduler) or pika::thread (detached)
    int prio = REDUCED ? ((word >> 1) & 1) : pmc_choose(2, 0);    // normal / high
    pmc_on_stuck(on_stuck);
    static pika::experimental::event* ev;
    ev = new pika::experimental::event[NT];
    rt::config c;
    c.workers = W;
    c.scheduler = policies[POLICY];
    rt::start(c);
    auto child = [&, ph](int id) {
        if (FULLWATCH) rt::watch_self_full(id == 1 ? "child1" : id == 2 ? "child2" : "child3");
        else rt::watch_self(id == 1 ? "child1" : id == 2 ? "child2" : "child3");
        Enter e(id);
        for (int k = 0; k < 2; ++k)
        {
            e.pause();
            switch (ph[k])
            {
            case P_WORK: break;
            case P_YIELD: pika::this_thread::yield(); break;
            case P_BOOST_YIELD: pika::execution::this_thread::detail::yield_k(16, "C01 boosted yield"); break;
            case P_SUSPEND: ev[id].wait(); break;
            }
            e.resume();
        }
    };
    // the root is submitted from outside the runtime (main is not a pika thread)
    rt::spawn([&, mech, prio] {
        if (FULLWATCH) rt::watch_self_full("root"); else rt::watch_self("root");
        Enter e(0);
        for (int i = 1; i <= NCHILD; ++i)
        {
            ++L.spawned;
            if (mech == 0) rt::spawn([&, i] { child(i); }, prio ? pika::execution::thread_priority::high : pika::execution::thread_priority::normal);
            else { pika::thread t([&, i] { child(i); }); t.detach(); }
        }
        e.pause();
        pika::this_thread::yield();
        e.resume();
        for (int i = 1; i <= NCHILD; ++i) ev[i].set();
    });
    rt::stop();
    for (int i = 0; i <= NCHILD; ++i)
        PMC_ASSERT(L.entered[i] == 1 && L.left[i] == 1, "task-dropped", "task %d: entered %d times, ran to completion %d times (policy %s)", i, L.entered[i], L.left[i], policies[POLICY]);
    pmc_outcome("ok");
}

// recycled task objects: a pika::thread that received an interruption request it never consumed terminates,
// its thread object (and stack) is re-used for the next tasks - they must run to completion like any other
// task (bodies that suspend: the first suspension of a victim is where a stale request would strike)
static void recycled_prog()
{
    static Ledger L;
    L = Ledger{};
    g = &L;
    int victims = 1 + pmc_choose(2, 0);
    int yields_before_interrupt = pmc_choose(3, 0);
    int sender_victim = pmc_choose(2, 0);    // victims are pika::threads or scheduled senders
    pmc_on_stuck(on_stuck);
    rt::config c;
    c.workers = 1 + pmc_choose(2, 0);
    c.extra = {"pika.thread_queue.max_terminated_threads=0"};    // terminated objects are recycled at once
    rt::start(c);
    static int completed, errors;
    completed = errors = 0;
    rt::spawn([&, victims, yields_before_interrupt, sender_victim] {
        Enter e(0);
        {
            pika::thread a([] { pika::this_thread::suspend(pika::threads::detail::thread_schedule_state::pending, "C01 predecessor"); });
            e.pause();
            for (int i = 0; i < yields_before_interrupt; ++i) pika::this_thread::yield();
            a.interrupt();
            a.join();
            e.resume();
        }
        for (int v = 0; v < victims; ++v)
        {
            auto body = [v] {
                Enter ev(1 + v);
                ev.pause();
                pika::this_thread::suspend(pika::threads::detail::thread_schedule_state::pending, "C01 victim");
                ev.resume();
                ++completed;
            };
            ++g->spawned;
            e.pause();
            if (sender_victim)
            {
                try { rt::tt::sync_wait(rt::ex::schedule(rt::ex::thread_pool_scheduler{}) | rt::ex::then(body)); }
                catch (...) { ++errors; }
            }
            else { pika::thread b(body); b.join(); }
            e.resume();
        }
    });
    rt::stop();
    PMC_ASSERT(errors == 0, "task-dropped", "%d task(s) completed with an error they did not raise themselves", errors);
    for (int v = 0; v < victims; ++v)
        PMC_ASSERT(L.entered[1 + v] == 1 && L.left[1 + v] == 1 && completed == victims, "task-dropped", "task %d on a recycled thread object: entered %d, left %d; %d of %d bodies ran to completion", 1 + v, L.entered[1 + v], L.left[1 + v], completed, victims);
    pmc_outcome("victims=%d completed=%d", victims, completed);
}

// one task suspends itself (state suspended) a few times; two other tasks both try to resume it whenever
// they see it suspended (as a notification racing with an interruption / abort would): whatever the order
// of the two resume attempts and the worker that picks the task up, it runs on one worker at a time and
// each of its phases exactly once
static void two_resumers_prog()
{
    static Ledger L;
    L = Ledger{};
    g = &L;
    int rounds = 1 + pmc_choose(2, 0);
    pmc_on_stuck(on_stuck);
    rt::config c;
    c.workers = 2;
    rt::start(c);
    static pika::threads::detail::thread_id_type target;
    static int target_known, phases, done;
    target = pika::threads::detail::invalid_thread_id;
    target_known = phases = done = 0;
    rt::spawn([&, rounds] {
        rt::watch_self("target");
        Enter e(0);
        target = pika::threads::detail::get_self_id();
        target_known = 1;
        for (int r = 0; r < rounds; ++r)
        {
            e.pause();
            pika::this_thread::suspend(pika::threads::detail::thread_schedule_state::suspended, "C01 two resumers");
            e.resume();
            ++phases;
        }
        done = 1;
    });
    // the two resumers are plain OS threads (as an external notifier and an external interrupter would be)
    std::thread res[2];
    for (int k = 0; k < 2; ++k)
        res[k] = std::thread([&] {
            while (!done)    // no iteration limit: the stuck detector ends executions in which nothing can move
            {
                if (target_known && pika::threads::detail::get_thread_id_data(target)->get_state().state() == pika::threads::detail::thread_schedule_state::suspended)
                {
                    pika::threads::detail::set_thread_state(target, pika::threads::detail::thread_schedule_state::pending, pika::threads::detail::thread_restart_state::signaled);
                    pmc_progress();
                }
                sched_yield();
            }
        });
    for (auto& t : res) t.join();
    rt::stop();
    PMC_ASSERT(done && phases == rounds, "task-dropped", "the suspended task ran %d of %d phases", phases, rounds);
    PMC_ASSERT(L.entered[0] == 1 && L.left[0] == 1, "task-dropped", "the resumed task: entered %d, left %d", L.entered[0], L.left[0]);
    target = pika::threads::detail::invalid_thread_id;
    pmc_outcome("rounds=%d", rounds);
}

// more live (blocked) tasks than the queue's thread map holds (pika.thread_queue.max_thread_count, here 2):
// the tasks submitted from outside are staged; all of them must be turned into threads and run, although the
// earlier ones stay blocked until the last one has been entered
static void staged_beyond_limit_prog()
{
    static Ledger L;
    L = Ledger{};
    g = &L;
    int workers = 1 + pmc_choose(2, 0);
    pmc_on_stuck(on_stuck);
    rt::config c;
    c.workers = workers;
    c.extra = {"pika.thread_queue.max_thread_count=2", "pika.thread_queue.min_add_new_count=1", "pika.thread_queue.max_add_new_count=1"};
    rt::start(c);
    static int entered;
    entered = 0;
    auto& ev = *new pika::experimental::event;
    int const N = 4 * workers;
    g->spawned = N;
    static int done[8];
    for (int i = 0; i < 8; ++i) done[i] = 0;
    for (int i = 0; i < N; ++i)
        rt::spawn([&, i, N] {
            if (++entered == N) ev.set();
            else ev.wait();    // blocked (suspended) until every task has been entered
            done[i] = 1;
        });
    rt::stop();
    int ndone = 0;
    for (int i = 0; i < N; ++i) ndone += done[i];
    PMC_ASSERT(entered == N && ndone == N, "task-dropped", "%d of %d tasks were entered, %d ran to completion (thread map limit 2 per queue)", entered, N, ndone);
    pmc_outcome("workers=%d", workers);
}

// more busy-waiting tasks than workers: P pika::threads created by a task; each announces itself and then polls with
// pika's own back-off (yield_while: pause, boosted yields, plain yields - what barrier::wait and the spinlocks do) until
// all P have announced themselves.  Every one of them must be entered ("this holds while tasks yield").
#include <pika/execution_base/this_thread.hpp>
static void on_stuck_pollers()
{
    char b[200];
    int n = 0;
    for (int i = 0; i < 4; ++i) n += snprintf(b + n, sizeof b - n, " t%d:%d/%d", i, g->entered[i], g->left[i]);
    pmc_fail("task-starved", "a created pika::thread is never entered while the tasks that wait for it poll with yield_while (entered/left:%s)", b);
}
template <int P, int W>
static void yield_pollers_prog()
{
    static Ledger L;
    L = Ledger{};
    g = &L;
    pmc_on_stuck(on_stuck_pollers);
    rt::config c;
    c.workers = W;
    rt::start(c);
    static std::atomic<int> announced;
    announced = 0;
    g->spawned = P;
    static int creator_done;
    creator_done = 0;
    rt::spawn([&] {
        std::vector<pika::thread> ts;
        for (int p = 0; p < P; ++p)
            ts.emplace_back([p] {
                ++g->entered[p];
                ++announced;
                pika::util::yield_while([] { return announced.load() < P; }, "yield_pollers");
                ++g->left[p];
            });
        for (auto& t : ts) t.join();
        creator_done = 1;
    });
    rt::stop();
    int n = 0;
    for (int p = 0; p < P; ++p) n += g->entered[p] == 1 && g->left[p] == 1;
    PMC_ASSERT(n == P && creator_done, "task-dropped", "%d of %d polling tasks were entered once and ran to completion", n, P);
    pmc_outcome("ok");
}

int main(int argc, char** argv)
{
    static const char* sites = "thread_data::(set_state_tagged|restore_state|set_state)|thread_queue|scheduling_loop|queue_holder|set_thread_state|set_active_state|create_work|create_thread";
    static const char* focus = "F-addr: whole thread_data of every task; F-site (stores, rmw, cas): thread_data state transitions, thread_queue / queue_holder bookkeeping, scheduling_loop, set_thread_state, create_thread/create_work";
    static const char* nsites = "thread_data::(set_state_tagged|restore_state|set_state)|set_thread_state|set_active_state|scheduling_loop";
    static const char* nfocus = "F-addr: state word of every task; F-site (rmw, cas): thread_data state transitions, set_thread_state/set_active_state, scheduling_loop (switch_status, queue hand-off)";
    static const pmc_spec specs[] = {
        // quick tier: narrow focus, every policy at bound 1, default policy at bound 2
        {"yield_pollers_4_w2", yield_pollers_prog<4, 2>, 0, 0, 0.02, 0.02, 0, "4 pika::threads created by a task on 2 workers, all polling with yield_while until all have been entered (default schedule only: bound 0)", nullptr, nullptr},
        {"staged_beyond_limit", staged_beyond_limit_prog, 0, 1, 0.04, 0.03, 1, nfocus, nsites, "rc"},
        {"two_resumers", two_resumers_prog, 1, 2, 0.08, 0.05, 1, nfocus, nsites, "rc"},
        {"recycled_after_interrupt", recycled_prog, 1, 2, 0.06, 0.04, 1, nfocus, nsites, "rc"},
        {"lpf_w2_c2", tree_prog<0, 2, 2>, 1, -1, 0.3, 0, 1, nfocus, nsites, "rc"},
        {"lpf_w1_c2", tree_prog<0, 1, 2>, 1, -1, 0.08, 0, 1, nfocus, nsites, "rc"},
        {"lpf_w2_c3", tree_prog<0, 2, 3, false, true>, 1, -1, 0.1, 0, 1, nfocus, nsites, "rc"},
        {"local_w2", tree_prog<1, 2, 2, false, true>, 1, -1, 0.08, 0, 1, nfocus, nsites, "rc"},
        {"lplifo_w2", tree_prog<2, 2, 2, false, true>, 1, -1, 0.08, 0, 1, nfocus, nsites, "rc"},
        {"static_w2", tree_prog<3, 2, 2, false, true>, 1, -1, 0.08, 0, 1, nfocus, nsites, "rc"},
        {"staticprio_w2", tree_prog<4, 2, 2, false, true>, 1, -1, 0.08, 0, 1, nfocus, nsites, "rc"},
        {"abpfifo_w2", tree_prog<5, 2, 2, false, true>, 1, -1, 0.08, 0, 1, nfocus, nsites, "rc"},
        {"abplifo_w2", tree_prog<6, 2, 2, false, true>, 1, -1, 0.08, 0, 1, nfocus, nsites, "rc"},
        {"shared_w2", tree_prog<7, 2, 2, false, true>, 1, -1, 0.08, 0, 1, nfocus, nsites, "rc"},
        // thorough tier: additionally the wide focus (whole thread_data, all queue bookkeeping)
        {"T_lpf_w2_c2_narrow", tree_prog<0, 2, 2>, -1, 3, 0, 0.2, 1, nfocus, nsites, "rc"},
        {"T_lpf_w2_c3_narrow", tree_prog<0, 2, 3>, -1, 2, 0, 0.1, 1, nfocus, nsites, "rc"},
        {"T_lpf_w2_c2_wide", tree_prog<0, 2, 2, true>, -1, 1, 0, 0.14, 1, focus, sites, "src"},
        {"T_local_w2", tree_prog<1, 2, 2>, -1, 2, 0, 0.08, 1, nfocus, nsites, "rc"},
        {"T_lplifo_w2", tree_prog<2, 2, 2>, -1, 2, 0, 0.08, 1, nfocus, nsites, "rc"},
        {"T_static_w2", tree_prog<3, 2, 2>, -1, 2, 0, 0.08, 1, nfocus, nsites, "rc"},
        {"T_staticprio_w2", tree_prog<4, 2, 2>, -1, 2, 0, 0.08, 1, nfocus, nsites, "rc"},
        {"T_abpfifo_w2", tree_prog<5, 2, 2>, -1, 2, 0, 0.08, 1, nfocus, nsites, "rc"},
        {"T_abplifo_w2", tree_prog<6, 2, 2>, -1, 2, 0, 0.08, 1, nfocus, nsites, "rc"},
        {"T_shared_w2", tree_prog<7, 2, 2>, -1, 2, 0, 0.08, 1, nfocus, nsites, "rc"},
    };
    static const char* assumptions[] = {"sequentially consistent interleavings only", "1-2 worker threads (the statement quantifies over 1..16)", "pika.max_busy_loop_count=4 and max_idle_loop_count=4 so that the direct-switch and idle paths of the scheduling loop are reached within a few phases"};
    pmc_config cfg{};
    cfg.property_id = "C01";
    cfg.rule = "task trees (root submitted externally, 2-3 children via execute or detached pika::thread, two phases each from {work, yield, boosted yield, suspend-until-event}, priorities) x 8 policies x workers {1,2} x all schedules within the deviation bound";
    cfg.assumptions = assumptions;
    cfg.n_assumptions = 3;
    cfg.warmup = rt::warmup;
    cfg.quick_budget_s = 150;
    cfg.thorough_budget_s = 1200;
    return pmc_main(argc, argv, &cfg, specs, sizeof specs / sizeof specs[0]);
}
