// C14 (part 2, pmc): racing request_stop / callback registration / callback destruction on plain OS
// threads and on pika tasks.
#include "rt_common.h"
#include <pika/synchronization/stop_token.hpp>
#include <memory>
#include <thread>

struct Counters
{
    int trues = 0, calls = 0, finished = 0;
    int runs[3] = {0, 0, 0};
    int in_body = 0;
    int destroyed[3] = {0, 0, 0};
    int hogs = 0, migrated = 0;
};
static Counters* g;
struct Body
{
    int idx;
    void operator()() const noexcept
    {
        ++g->in_body;
        ++g->runs[idx];
        pmc_point("callback-running");
        if (g->destroyed[idx]) pmc_fail("callback-after-destructor", "callback %d is executing although its destructor has returned", idx);
        pmc_point("callback-running-2");
        if (g->destroyed[idx]) pmc_fail("callback-after-destructor", "callback %d is executing although its destructor has returned", idx);
        --g->in_body;
    }
};
using cb_t = pika::stop_callback<Body>;

template <bool OS, typename F>
static void run_threads(int n, F body)
{
    if (OS)
    {
        std::vector<std::thread> th;
        for (int i = 0; i < n; ++i) th.emplace_back([=] { body(i); ++g->finished; });
        for (auto& t : th) t.join();
    }
    else
    {
        rt::start();
        for (int i = 0; i < n; ++i) rt::spawn([=] { rt::watch_self(i == 0 ? "a" : i == 1 ? "b" : "c"); body(i); ++g->finished; });
        rt::stop();
    }
}

// A: N concurrent request_stop calls: exactly one true; a registered callback runs exactly once
template <bool OS, int N>
static void request_race()
{
    static Counters c;
    c = Counters{};
    g = &c;
    auto& src = *new pika::stop_source;
    pika::stop_token tok = src.get_token();
    pmc_watch(src.state_.get(), sizeof(*src.state_.get()), "stop_state");
    auto* cb = new cb_t(tok, Body{0});
    run_threads<OS>(N, [&](int) {
        bool r = src.request_stop();
        ++c.calls;
        if (r) ++c.trues;
        PMC_ASSERT(tok.stop_requested(), "not-requested-after-request_stop", "stop_requested() false after request_stop returned");
    });
    PMC_ASSERT(c.finished == N, "task-lost", "%d of %d callers finished", c.finished, N);
    PMC_ASSERT(c.trues == 1, "request-stop-winners", "%d of %d concurrent request_stop calls returned true", c.trues, N);
    PMC_ASSERT(c.runs[0] == 1, "callback-count", "registered callback ran %d times", c.runs[0]);
    delete cb;
    pmc_outcome("trues=%d", c.trues);
}

// B: registration races with request_stop: the callback runs exactly once (inline or signalled)
template <bool OS>
static void register_race()
{
    static Counters c;
    c = Counters{};
    g = &c;
    int second_requester = pmc_choose(2, 0);
    auto& src = *new pika::stop_source;
    pika::stop_token tok = src.get_token();
    pmc_watch(src.state_.get(), sizeof(*src.state_.get()), "stop_state");
    static cb_t* cb;
    cb = nullptr;
    run_threads<OS>(2 + second_requester, [&](int i) {
        if (i == 1) cb = new cb_t(tok, Body{1});
        else if (src.request_stop()) ++c.trues;
    });
    PMC_ASSERT(c.finished == 2 + second_requester, "task-lost", "%d bodies finished", c.finished);
    PMC_ASSERT(c.trues == 1, "request-stop-winners", "%d request_stop calls returned true", c.trues);
    PMC_ASSERT(c.runs[1] == 1, "callback-count", "callback registered concurrently with request_stop ran %d times (stop was requested: exactly once expected)", c.runs[1]);
    delete cb;
    PMC_ASSERT(c.runs[1] == 1, "callback-count", "callback ran %d times after destruction", c.runs[1]);
    pmc_outcome("runs=%d", c.runs[1]);
}

// C: a callback is destroyed on another thread while request_stop may be executing it
template <bool OS>
static void destroy_race()
{
    static Counters c;
    c = Counters{};
    g = &c;
    auto& src = *new pika::stop_source;
    pika::stop_token tok = src.get_token();
    pmc_watch(src.state_.get(), sizeof(*src.state_.get()), "stop_state");
    static cb_t *cb0, *cb1;
    cb0 = new cb_t(tok, Body{0});
    cb1 = new cb_t(tok, Body{1});
    pmc_watch(cb0, sizeof(cb_t), "cb0");
    pmc_watch(cb1, sizeof(cb_t), "cb1");
    run_threads<OS>(2, [&](int i) {
        if (i == 0) { if (src.request_stop()) ++c.trues; }
        else
        {
            delete cb0;                 // may be running on the other thread: must wait for it
            c.destroyed[0] = 1;
            PMC_ASSERT(c.in_body == 0 || c.runs[1] > 0, "destructor-did-not-wait", "destructor of callback 0 returned while its body is still executing on another thread");
        }
    });
    PMC_ASSERT(c.finished == 2, "task-lost", "%d bodies finished", c.finished);
    PMC_ASSERT(c.runs[0] <= 1 && c.runs[1] == 1, "callback-count", "callbacks ran %d / %d times", c.runs[0], c.runs[1]);
    delete cb1;
    pmc_outcome("runs0=%d", c.runs[0]);
}

// E: token queries racing with callback (de)registration.  The queries read the same state word the
// registration lock lives in: with no stop requested stop_requested() is false, and stop_possible() is true
// exactly while a stop_source exists - whatever another thread is doing to the callback list meanwhile
template <bool OS>
static void query_race()
{
    static Counters c;
    c = Counters{};
    g = &c;
    int keep_source = pmc_choose(2, 0);
    auto* src = new pika::stop_source;
    pika::stop_token tok = src->get_token();
    pmc_watch(src->state_.get(), sizeof(*src->state_.get()), "stop_state");
    static cb_t* cb0;
    cb0 = new cb_t(tok, Body{0});
    if (!keep_source) { delete src; src = nullptr; }    // no source left, no stop requested: stop is not possible any more
    static int bad_possible, bad_requested;
    bad_possible = bad_requested = 0;
    run_threads<OS>(2, [&](int i) {
        if (i == 0)
        {
            delete cb0;                        // deregistration takes the state's lock bit
            cb_t again(tok, Body{1});          // ... and so does a registration (never run: no stop is requested)
        }
        else
            for (int k = 0; k < 3; ++k)
            {
                if (tok.stop_possible() != (keep_source != 0)) ++bad_possible;
                if (tok.stop_requested()) ++bad_requested;
            }
    });
    PMC_ASSERT(bad_possible == 0, "stop-possible", "stop_possible() returned %s %d time(s) while %s and no stop was requested", keep_source ? "false" : "true", bad_possible, keep_source ? "a stop_source exists" : "no stop_source exists");
    PMC_ASSERT(bad_requested == 0 && c.runs[0] == 0 && c.runs[1] == 0, "stop-requested", "stop_requested() was true / a callback ran although nobody requested a stop");
    delete src;
    pmc_outcome("keep_source=%d", keep_source);
}

// D: deregistration from inside a callback (itself, and a sibling that must then not run)
struct SelfBody
{
    int idx;
    void operator()() const noexcept;
};
static pika::stop_callback<SelfBody>* g_self[2];
static int g_self_migrate;
static int g_self_yields;    // pika tasks: the callback yields first (it may be resumed on another worker: "its own thread" is the pika thread, not the OS thread)
void SelfBody::operator()() const noexcept
{
    ++g->runs[idx];
    if (idx == 1)
    {
        if (g_self_migrate)
        {
            // keep this worker busy with another task while this one is pending: the idle worker steals it
            std::size_t w0 = pika::get_worker_thread_num();
            rt::spawn([] { for (int k = 0; k < 3; ++k) pmc_point("hog"); ++g->hogs; });
            pika::this_thread::yield();
            if (pika::get_worker_thread_num() != w0) g->migrated = 1;
        }
        for (int i = 0; i < g_self_yields; ++i) pika::this_thread::yield();
        // registered last => runs first: destroys itself and its sibling from inside the callback
        auto* me = g_self[1];
        g_self[1] = nullptr;
        delete me;                 // own destructor on the signalling thread: must not wait
        g->destroyed[1] = 1;
        auto* sib = g_self[0];
        g_self[0] = nullptr;
        delete sib;                // sibling not yet run: deregistered, must never run
        g->destroyed[0] = 1;
    }
    else if (g->destroyed[0]) pmc_fail("callback-after-destructor", "sibling callback ran after its destructor returned");
}
template <bool OS, int MIGRATE = 0>
static void self_destroy()
{
    static Counters c;
    c = Counters{};
    g = &c;
    auto& src = *new pika::stop_source;
    pika::stop_token tok = src.get_token();
    pmc_watch(src.state_.get(), sizeof(*src.state_.get()), "stop_state");
    g_self[0] = new pika::stop_callback<SelfBody>(tok, SelfBody{0});
    g_self[1] = new pika::stop_callback<SelfBody>(tok, SelfBody{1});
    g_self_yields = OS || MIGRATE ? 0 : pmc_choose(3, 0);
    g_self_migrate = MIGRATE;
    run_threads<OS>(2, [&](int) { if (src.request_stop()) ++c.trues; });
    PMC_ASSERT(c.finished == 2 && c.trues == 1, "request-stop-winners", "finished=%d trues=%d", c.finished, c.trues);
    PMC_ASSERT(c.runs[1] == 1 && c.runs[0] == 0, "callback-count", "self-destroying callback ran %d times, deregistered sibling ran %d times", c.runs[1], c.runs[0]);
    pmc_outcome("ok yields=%d migrated=%d", g_self_yields, c.migrated);
}

int main(int argc, char** argv)
{
    static const char* focus = "F-addr: the stop_state (state_ word = lock bit + stop bit + counts, callback list head) and the callback objects; harness points inside callback bodies";
    static const pmc_spec specs[] = {
        {"request_race_os_2", request_race<true, 2>, 5, 8, 0.1, 0.1, 1, focus, nullptr, nullptr},
        {"request_race_os_3", request_race<true, 3>, 3, 5, 0.1, 0.1, 1, focus, nullptr, nullptr},
        {"request_race_tasks_2", request_race<false, 2>, 3, 4, 0.15, 0.15, 1, focus, nullptr, nullptr},
        {"register_race_os", register_race<true>, 4, 6, 0.1, 0.1, 1, focus, nullptr, nullptr},
        {"register_race_tasks", register_race<false>, 3, 4, 0.15, 0.15, 1, focus, nullptr, nullptr},
        {"destroy_race_os", destroy_race<true>, 4, 6, 0.1, 0.1, 1, focus, nullptr, nullptr},
        {"destroy_race_tasks", destroy_race<false>, 3, 4, 0.15, 0.15, 1, focus, nullptr, nullptr},
        {"query_race_os", query_race<true>, 3, 5, 0.05, 0.05, 1, focus, nullptr, nullptr},
        {"self_destroy_os", self_destroy<true>, 3, 5, 0.05, 0.05, 1, focus, nullptr, nullptr},
        {"self_destroy_tasks", self_destroy<false>, 2, 3, 0.1, 0.1, 1, focus, nullptr, nullptr},
        {"self_destroy_migrated", self_destroy<false, 1>, 2, 3, 0.15, 0.1, 1, "the callback spawns a task that keeps its worker busy, yields and is resumed by the other worker (its OS thread changes, its pika thread does not) before it destroys itself", nullptr, nullptr},
    };
    static const char* assumptions[] = {"sequentially consistent interleavings only", "2-3 racing threads/tasks, 2 workers"};
    pmc_config cfg{};
    cfg.property_id = "C14";
    cfg.rule = "racing request_stop / callback registration / callback destruction programs x all schedules within the deviation bound, on plain OS threads and on pika tasks";
    cfg.assumptions = assumptions;
    cfg.n_assumptions = 2;
    cfg.warmup = rt::warmup;
    cfg.quick_budget_s = 100;
    cfg.thorough_budget_s = 900;
    return pmc_main(argc, argv, &cfg, specs, sizeof specs / sizeof specs[0]);
}
