// C03 (thorough tier): generated term space.  Every pipeline U1(leaf) and U2(U1(leaf)) over the unary
// adaptor alphabet of gen_c03_terms.py, the expected completion computed by the generator's reference
// interpreter; leaf channel x inline/deferred x throwing callable by data choice, all schedules of
// consumer / completer / draining thread within the deviation bound.
#define C03_NO_MAIN
#include "C03_senders.cpp"

static int g_throw = 0;
#include "C03_terms.gen.hpp"

template <int PART, int PARTS>
static void p_terms()
{
    int lo = N_TERMS * PART / PARTS, hi = N_TERMS * (PART + 1) / PARTS;
    int t = lo + pmc_choose(hi - lo, 0);
    TermInfo const& ti = g_terms[t];
    int ch = pmc_choose(3, 0), def = pmc_choose(2, 0);
    g_throw = ti.uses_throw ? pmc_choose(2, 0) : 0;
    Frame fr;
    Outcome o;
    {
        std::thread c(completer), d;
        if (ti.uses_sched) d = std::thread(drain);
        ti.run(ch, def, o);
        fr.mq.stop = 1;
        stop_completer(c);
        if (d.joinable()) d.join();
    }
    int const* e = ti.exp[ch][g_throw];
    expect(o, e[0], e[1], ti.name);
    fr.finish(ti.name);
    pmc_outcome("%d %s/%d", t, chn[o.channel()], o.tag);
}

int main(int argc, char** argv)
{
    mallopt(M_PERTURB, 0xA5);
    static const char* sites = "execution/algorithms|execution_base/(any_sender|operation_state|receiver|sender)|_Sp_counted_base|intrusive_ptr|atomic_count";
    static const char* focus = "F-site: all atomics of the adaptor headers, any_sender, reference counts; all pthread operations";
    static const pmc_spec specs[] = {
        {"terms_0", p_terms<0, 4>, -1, 3, 0.25, 0.25, 1, focus, sites, nullptr},
        {"terms_1", p_terms<1, 4>, -1, 3, 0.25, 0.25, 1, focus, sites, nullptr},
        {"terms_2", p_terms<2, 4>, -1, 3, 0.25, 0.25, 1, focus, sites, nullptr},
        {"terms_3", p_terms<3, 4>, -1, 3, 0.25, 0.25, 1, focus, sites, nullptr},
    };
    static const char* assumptions[] = {"sequentially consistent interleavings only",
        "generated terms: depth 1-2 over {then, then(throwing), let_value, let_error, continues_on(manual), split, ensure_started, require_started, drop_operation_state, unique_any_sender, drop_value, when_all(., just)}; one consumer"};
    pmc_config cfg{};
    cfg.property_id = "C03";
    cfg.rule = "all generated terms of depth 1-2 x leaf channel x inline/deferred x throwing callable (data choices) x all schedules within the deviation bound; expected completion from the generator's reference interpreter";
    cfg.assumptions = assumptions;
    cfg.n_assumptions = 2;
    cfg.quick_budget_s = 60;
    cfg.thorough_budget_s = 600;
    return pmc_main(argc, argv, &cfg, specs, sizeof specs / sizeof specs[0]);
}
