// C18 (seqx): type-erased senders and functions behave like what they wrap.  BFS over operation
// histories on two wrapper slots, de-duplicated on the reference model; every transition replayed on
// fresh real wrappers; differential against the un-erased behaviour; lifetime ledger per payload kind.
#include "seqx.h"
#include <functional>
#include <pika/execution.hpp>
#include <pika/execution_base/any_sender.hpp>
#include <pika/functional/function.hpp>
#include <pika/functional/unique_function.hpp>
#include <pika/modules/errors.hpp>
#include <deque>
#include <map>
#include <optional>
#include <sstream>

namespace ex = pika::execution::experimental;

// ---- instrumented callables -------------------------------------------------------------------------
static int g_live[4], g_ctor[4], g_dtor[4], g_double_destroy;
template <int KIND, size_t PAD>
struct Callable
{
    int counter = 0;
    unsigned magic = 0xC0DE;
    char pad[PAD];
    Callable() { ++g_live[KIND]; ++g_ctor[KIND]; }
    Callable(Callable const& o) : counter(o.counter) { ++g_live[KIND]; ++g_ctor[KIND]; }
    Callable(Callable&& o) noexcept : counter(o.counter) { ++g_live[KIND]; ++g_ctor[KIND]; }
    Callable& operator=(Callable const&) = default;
    ~Callable() { if (magic != 0xC0DE) ++g_double_destroy; magic = 0xDEAD; --g_live[KIND]; ++g_dtor[KIND]; }
    int operator()(int x)
    {
        if (magic != 0xC0DE) return -777;
        if (KIND == 2) throw std::runtime_error("callable throws");
        return KIND * 1000 + (counter++) * 10 + x;
    }
};
using Small = Callable<0, 16>;     // sizeof == 24 == the inline buffer of pika::util::detail::function (3 pointers): fits exactly
using Large = Callable<1, 17>;     // sizeof == 28: one word beyond the inline buffer -> heap
using Thrower = Callable<2, 1>;
static_assert(sizeof(Small) == 3 * sizeof(void*) && sizeof(Large) > 3 * sizeof(void*) && sizeof(Large) <= 4 * sizeof(void*), "payload sizes sit on both sides of the small-buffer boundary");
struct MoveOnly
{
    std::unique_ptr<int> p = std::make_unique<int>(0);
    MoveOnly() { ++g_live[3]; ++g_ctor[3]; }
    MoveOnly(MoveOnly&& o) noexcept : p(std::move(o.p)) { ++g_live[3]; ++g_ctor[3]; }
    ~MoveOnly() { --g_live[3]; ++g_dtor[3]; }
    int operator()(int x) { return 3000 + ((*p)++) * 10 + x; }
};

enum Kind { K_SMALL, K_LARGE, K_THROW, K_MOVEONLY, K_EMPTY };
enum OpK { O_ASSIGN, O_COPY, O_MOVE, O_RESET, O_SWAP, O_CALL, O_COPYCONS_TMP, O_MOVECONS };
struct Op { int k, a, b; };
static std::string opstr(Op o)
{
    static const char* n[] = {"assign_kind", "copy_assign", "move_assign", "reset", "swap", "call", "copy_construct_temp", "move_construct_temp_then_move_to"};
    char buf[64];
    snprintf(buf, sizeof buf, "%s(%d,%d)", n[o.k], o.a, o.b);
    return buf;
}
struct RSlot { int kind = K_EMPTY; int counter = 0; };
struct Ref
{
    RSlot s[2];
    std::string last;
    bool copyable;
    explicit Ref(bool c) : copyable(c) {}
    bool enabled(Op o) const
    {
        if (o.k == O_ASSIGN && o.b == K_MOVEONLY && copyable) return false;
        if ((o.k == O_COPY || o.k == O_COPYCONS_TMP) && !copyable) return false;
        return true;
    }
    void apply(Op o)
    {
        last = "-";
        switch (o.k)
        {
        case O_ASSIGN: s[o.a] = RSlot{o.b, 0}; break;
        case O_COPY: s[o.a] = s[o.b]; break;
        case O_MOVE: if (o.a != o.b) { s[o.a] = s[o.b]; s[o.b] = RSlot{}; } break;
        case O_RESET: s[o.a] = RSlot{}; break;
        case O_MOVECONS: { RSlot t = s[o.a]; s[o.a] = RSlot{}; if (o.b >= 0) s[o.b] = t; } break;    // F t(std::move(f[a])); [f[b] = std::move(t);]
        case O_SWAP: std::swap(s[0], s[1]); break;
        case O_COPYCONS_TMP: { RSlot t = s[o.a]; if (t.kind == K_EMPTY) last = "bad_function_call"; else if (t.kind == K_THROW) last = "runtime_error"; else last = std::to_string(t.kind * 1000 + t.counter * 10 + 7); } break;
        case O_CALL:
            if (s[o.a].kind == K_EMPTY) last = "bad_function_call";
            else if (s[o.a].kind == K_THROW) last = "runtime_error";
            else { last = std::to_string(s[o.a].kind * 1000 + s[o.a].counter * 10 + 7); ++s[o.a].counter; }
            break;
        }
    }
    std::string observe() const
    {
        std::ostringstream o;
        int live[4] = {0, 0, 0, 0};
        for (int i = 0; i < 2; ++i) { o << (s[i].kind == K_EMPTY ? "E" : "F"); if (s[i].kind != K_EMPTY) ++live[s[i].kind]; }
        o << " live:" << live[0] << live[1] << live[2] << live[3] << " r:" << last;
        return o.str();
    }
    std::string canon() const
    {
        std::ostringstream o;
        for (int i = 0; i < 2; ++i) o << s[i].kind << ":" << (s[i].counter > 2 ? 2 : s[i].counter) << ",";
        return o.str();
    }
};

template <typename F, bool COPYABLE>
struct RealFn
{
    F f[2];
    std::string last;
    void apply(Op o)
    {
        last = "-";
        auto call = [&](F& fn) {
            try { last = std::to_string(fn(7)); }
            catch (pika::exception const& e) { last = e.get_error() == pika::error::bad_function_call ? "bad_function_call" : "pika-error"; }
            catch (std::runtime_error const&) { last = "runtime_error"; }
        };
        switch (o.k)
        {
        case O_ASSIGN:
            if (o.b == K_SMALL) f[o.a] = Small{};
            else if (o.b == K_LARGE) f[o.a] = Large{};
            else if (o.b == K_THROW) f[o.a] = Thrower{};
            else if constexpr (!COPYABLE) { if (o.b == K_MOVEONLY) f[o.a] = MoveOnly{}; else f[o.a].reset(); }
            else f[o.a].reset();
            break;
        case O_COPY: if constexpr (COPYABLE) f[o.a] = f[o.b]; break;
        case O_MOVE: f[o.a] = std::move(f[o.b]); break;
        case O_RESET: f[o.a].reset(); break;
        case O_MOVECONS: { F t(std::move(f[o.a])); if (o.b >= 0) f[o.b] = std::move(t); } break;
        case O_SWAP: f[0].swap(f[1]); break;
        case O_COPYCONS_TMP: if constexpr (COPYABLE) { F t(f[o.a]); call(t); } break;
        case O_CALL: call(f[o.a]); break;
        }
    }
    std::string observe() const
    {
        std::ostringstream o;
        for (int i = 0; i < 2; ++i) o << (f[i].empty() ? "E" : "F");
        o << " live:" << g_live[0] << g_live[1] << g_live[2] << g_live[3] << " r:" << last;
        return o.str();
    }
};

static std::vector<Op> fn_alphabet(bool copyable)
{
    std::vector<Op> v;
    for (int a = 0; a < 2; ++a)
    {
        for (int k = 0; k <= K_EMPTY; ++k) v.push_back({O_ASSIGN, a, k});
        v.push_back({O_COPY, a, 1 - a});
        v.push_back({O_COPY, a, a});
        v.push_back({O_MOVE, a, 1 - a});
        v.push_back({O_RESET, a, 0});
        v.push_back({O_CALL, a, 0});
        v.push_back({O_COPYCONS_TMP, a, 0});
        v.push_back({O_MOVECONS, a, -1});       // moved-from by construction, the temporary dies
        v.push_back({O_MOVECONS, a, a});        // ... and is moved back
        v.push_back({O_MOVECONS, a, 1 - a});    // ... or on to the other slot
    }
    v.push_back({O_SWAP, 0, 1});
    (void) copyable;
    return v;
}

// histories up to full_depth are enumerated without de-duplication (a wrapper can be corrupted in a way
// the reference state does not show, cf. seeds C18-1/C18-2); beyond that the search continues from one
// representative per reference state
template <typename RealT>
static void bfs(int depth, bool copyable, int full_depth = 2)
{
    auto alpha = fn_alphabet(copyable);
    std::set<std::string> seen;
    std::deque<std::vector<Op>> frontier;
    frontier.push_back({});
    seen.insert(Ref(copyable).canon());
    ++seqx::g->states;
    while (!frontier.empty())
    {
        auto hist = std::move(frontier.front());
        frontier.pop_front();
        if ((int) hist.size() >= depth) continue;
        Ref base(copyable);
        for (auto o : hist) base.apply(o);
        for (auto op : alpha)
        {
            if (!base.enabled(op)) continue;
            std::string hs;
            for (auto o : hist) hs += opstr(o) + " ";
            hs += opstr(op);
            seqx::begin_case("%s", hs.c_str());
            ++seqx::g->transitions;
            for (int i = 0; i < 4; ++i) g_live[i] = g_ctor[i] = g_dtor[i] = 0;
            g_double_destroy = 0;
            {
                RealT real;
                Ref ref(copyable);
                auto all = hist;
                all.push_back(op);
                for (size_t i = 0; i < all.size(); ++i)
                {
                    real.apply(all[i]);
                    ref.apply(all[i]);
                    std::string a = real.observe(), b = ref.observe();
                    SEQX_CHECK(a == b, "differs-from-unerased", "after step %zu (%s): wrapper [%s] != un-erased reference [%s] (slots Empty/Full, live instances per payload kind small/large/throwing/move-only, result of the call)", i + 1, opstr(all[i]).c_str(), a.c_str(), b.c_str());
                    SEQX_CHECK(g_double_destroy == 0, "double-destroy", "a contained object was destroyed twice after step %zu (%s)", i + 1, opstr(all[i]).c_str());
                }
                // probe suffix: the model merges histories with equal reference state, so every
                // transition is followed by a look at the observable future of both slots (two calls
                // each) before the wrappers are destroyed
                for (int rep = 0; rep < 2; ++rep)
                    for (int slot = 0; slot < 2; ++slot)
                    {
                        Op probe{O_CALL, slot, 0};
                        real.apply(probe);
                        ref.apply(probe);
                        std::string a = real.observe(), b = ref.observe();
                        SEQX_CHECK(a == b, "differs-from-unerased", "probe call on slot %d after the history: wrapper [%s] != un-erased reference [%s]", slot, a.c_str(), b.c_str());
                    }
            }
            SEQX_CHECK(g_double_destroy == 0, "double-destroy", "a contained object was destroyed twice when the wrappers were destroyed");
            for (int i = 0; i < 4; ++i)
                SEQX_CHECK(g_live[i] == 0 && g_ctor[i] == g_dtor[i], "lifetime-ledger", "payload kind %d: %d constructed, %d destroyed, %d alive after the wrappers are gone", i, g_ctor[i], g_dtor[i], g_live[i]);
            Ref nxt = base;
            nxt.apply(op);
            bool fresh = seen.insert(nxt.canon()).second;
            if (fresh || (int) hist.size() + 1 <= full_depth)
            {
                if (fresh) ++seqx::g->states;
                auto nh = hist;
                nh.push_back(op);
                frontier.push_back(std::move(nh));
            }
        }
    }
}

// ---- senders ---------------------------------------------------------------------------------------
struct Out { int nv = 0, ne = 0, ns = 0, val = -1; std::string err; };
struct SRec
{
    PIKA_STDEXEC_RECEIVER_CONCEPT
    Out* o;
    void set_value(int v) && noexcept { ++o->nv; o->val = v; }
    void set_error(std::exception_ptr e) && noexcept { ++o->ne; try { std::rethrow_exception(e); } catch (std::runtime_error const& x) { o->err = x.what(); } catch (...) { o->err = "?"; } }
    void set_stopped() && noexcept { ++o->ns; }
    constexpr ex::empty_env get_env() const& noexcept { return {}; }
};
// un-erased senders of three sizes / channels, with instance counting via a counted member
template <int KIND, size_t PAD>
struct Snd
{
    PIKA_STDEXEC_SENDER_CONCEPT
    Callable<KIND, PAD> token;    // counted payload stored by the sender
    int ch;                       // 0 value, 1 error, 2 stopped
    template <template <typename...> class Tuple, template <typename...> class Variant>
    using value_types = Variant<Tuple<int>>;
    template <template <typename...> class Variant>
    using error_types = Variant<std::exception_ptr>;
    static constexpr bool sends_done = true;
    using completion_signatures = ex::completion_signatures<ex::set_value_t(int), ex::set_error_t(std::exception_ptr), ex::set_stopped_t()>;
    template <typename R>
    struct op
    {
        std::decay_t<R> r;
        int ch, kind;
        void start() & noexcept
        {
            if (ch == 0) ex::set_value(std::move(r), kind * 100 + 5);
            else if (ch == 1) ex::set_error(std::move(r), std::make_exception_ptr(std::runtime_error("E" + std::to_string(kind))));
            else ex::set_stopped(std::move(r));
        }
    };
    template <typename R>
    op<R> connect(R&& r) const& { return {std::forward<R>(r), ch, KIND}; }
};
// a copyable sender whose moved-from state is observable (string payload): wrapping an lvalue of it must copy
struct LSnd
{
    PIKA_STDEXEC_SENDER_CONCEPT
    std::string tag = "a tag that is too long for the small string optimisation";
    int ch = 0;
    template <template <typename...> class Tuple, template <typename...> class Variant>
    using value_types = Variant<Tuple<int>>;
    template <template <typename...> class Variant>
    using error_types = Variant<std::exception_ptr>;
    static constexpr bool sends_done = true;
    using completion_signatures = ex::completion_signatures<ex::set_value_t(int), ex::set_error_t(std::exception_ptr), ex::set_stopped_t()>;
    template <typename R>
    struct op
    {
        std::decay_t<R> r;
        int ch;
        bool intact;
        void start() & noexcept
        {
            if (ch == 0) ex::set_value(std::move(r), intact ? 205 : -7);
            else if (ch == 1) ex::set_error(std::move(r), std::make_exception_ptr(std::runtime_error(intact ? "E2" : "moved-from")));
            else ex::set_stopped(std::move(r));
        }
    };
    template <typename R>
    op<R> connect(R&& r) const& { return {std::forward<R>(r), ch, tag.size() > 20}; }
};
template <typename W, bool COPYABLE>
static void sender_grid()
{
    // all sequences (depth 3) over: construct from kind x channel, move to b, copy to b, reset, connect+start a/b
    for (int kind = 0; kind < 2; ++kind)
        for (int ch = 0; ch < 3; ++ch)
            for (int script = 0; script < 12; ++script)
            {
                seqx::begin_case("%s kind=%s channel=%d script=%d", COPYABLE ? "any_sender" : "unique_any_sender", kind ? "large" : "small", ch, script);
                ++seqx::g->transitions;
                for (int i = 0; i < 4; ++i) g_live[i] = g_ctor[i] = g_dtor[i] = 0;
                g_double_destroy = 0;
                {
                    W a, b;
                    SEQX_CHECK(a.empty(), "default-not-empty", "default-constructed wrapper is not empty");
                    if (kind == 0) a = Snd<0, 1>{{}, ch}; else a = Snd<1, 96>{{}, ch};
                    SEQX_CHECK(!a.empty(), "empty-after-store", "wrapper empty after storing a sender");
                    auto run = [&](W& w, bool expect_empty, const char* what) {
                        Out o;
                        bool threw = false;
                        try { auto os = ex::connect(std::move(w), SRec{&o}); ex::start(os); }
                        catch (pika::exception const& e) { threw = e.get_error() == pika::error::bad_function_call; }
                        if (expect_empty) { SEQX_CHECK(threw && o.nv + o.ne + o.ns == 0, "empty-use", "%s: connecting an empty wrapper did not throw bad_function_call", what); return; }
                        SEQX_CHECK(!threw, "unexpected-throw", "%s: connect threw", what);
                        SEQX_CHECK(o.nv + o.ne + o.ns == 1, "completion-count", "%s: %d completion signals", what, o.nv + o.ne + o.ns);
                        if (ch == 0) SEQX_CHECK(o.nv == 1 && o.val == kind * 100 + 5, "differs-from-unerased", "%s: value %d, the wrapped sender sends %d", what, o.val, kind * 100 + 5);
                        if (ch == 1) SEQX_CHECK(o.ne == 1 && o.err == "E" + std::to_string(kind), "differs-from-unerased", "%s: error '%s'", what, o.err.c_str());
                        if (ch == 2) SEQX_CHECK(o.ns == 1, "differs-from-unerased", "%s: not stopped", what);
                        SEQX_CHECK(w.empty(), "not-empty-after-rvalue-connect", "%s: wrapper not empty after it was connected as an rvalue", what);
                    };
                    switch (script)
                    {
                    case 0: run(a, false, "connect a"); run(a, true, "connect a again"); break;
                    case 1: b = std::move(a); SEQX_CHECK(a.empty() && !b.empty(), "move-empty", "moved-from wrapper not empty"); run(b, false, "connect moved-to b"); run(a, true, "connect moved-from a"); break;
                    case 2: a.reset(); SEQX_CHECK(a.empty(), "reset", "not empty after reset"); run(a, true, "connect after reset"); break;
                    case 3: { W c(std::move(a)); run(c, false, "connect move-constructed"); } break;
                    case 4: b = std::move(a); a = std::move(b); run(a, false, "connect after move there and back"); break;
                    case 5: run(b, true, "connect default-constructed"); break;
                    case 6: if constexpr (COPYABLE) { b = a; run(a, false, "connect original"); SEQX_CHECK(!b.empty(), "copy-independent", "copy became empty when the original was consumed"); run(b, false, "connect copy"); } break;
                    case 7: if constexpr (COPYABLE) { W c(a); a.reset(); run(c, false, "connect copy after original reset"); } break;
                    case 8: if constexpr (COPYABLE) { b = a; b = a; a = b; run(a, false, "connect after repeated copy-assign"); run(b, false, "connect b"); } break;
                    case 9: a = Snd<1, 96>{{}, ch}; { Out o; auto os = ex::connect(std::move(a), SRec{&o}); ex::start(os); SEQX_CHECK(o.nv + o.ne + o.ns == 1, "completion-count", "re-stored wrapper"); } break;
                    case 10: if constexpr (COPYABLE) { Out o; auto os = ex::connect(a, SRec{&o}); ex::start(os); SEQX_CHECK(o.nv + o.ne + o.ns == 1 && !a.empty(), "lvalue-connect", "lvalue connect must leave the wrapper intact"); run(a, false, "connect again as rvalue"); } break;
                    case 11: { W c; c = std::move(a); W d(std::move(c)); run(d, false, "connect after move chain"); } break;
                    }
                }
                for (int i = 0; i < 4; ++i)
                    SEQX_CHECK(g_live[i] == 0 && g_ctor[i] == g_dtor[i], "lifetime-ledger", "sender payload kind %d: %d constructed, %d destroyed, %d alive", i, g_ctor[i], g_dtor[i], g_live[i]);
                SEQX_CHECK(g_double_destroy == 0, "double-destroy", "a stored sender was destroyed twice");
                ++seqx::g->states;
            }
}

// all histories (no de-duplication) up to a depth over two wrapper slots: store small / large sender, move-
// assign, copy-assign, assign an empty wrapper, reset, move-construct a temporary, connect as rvalue (consumes)
// and as lvalue (copyable wrappers); reference model: a slot is empty or holds a sender of a known kind
enum SOp { S_STORE, S_MOVE, S_COPY, S_ASSIGN_EMPTY, S_RESET, S_MOVECONS, S_CONNECT_R, S_CONNECT_L, S_SELF_MOVE, S_STORE_LVALUE, S_STORE_FAIL };
// a sender whose copy / move construction fails on demand: storing it into a wrapper throws inside the wrapper's
// allocation of the new implementation object (a fault at that point; operator new failing is the same path)
static bool g_fail_wrap = false;
struct FSnd : LSnd
{
    FSnd() = default;
    FSnd(FSnd const& o) : LSnd(o) { if (g_fail_wrap) throw std::runtime_error("sender copy failed"); }
    FSnd(FSnd&& o) : LSnd(o) { if (g_fail_wrap) throw std::runtime_error("sender move failed"); }
    FSnd& operator=(FSnd const&) = default;
};
struct SStep { int op, a, b; };
template <typename W, bool COPYABLE>
static void sender_histories(int depth)
{
    std::vector<SStep> alpha;
    for (int a = 0; a < 2; ++a)
    {
        alpha.push_back({S_STORE, a, 0});
        alpha.push_back({S_STORE, a, 1});
        alpha.push_back({S_MOVE, a, 1 - a});
        if (COPYABLE) alpha.push_back({S_COPY, a, 1 - a});
        alpha.push_back({S_ASSIGN_EMPTY, a, 0});
        alpha.push_back({S_RESET, a, 0});
        alpha.push_back({S_MOVECONS, a, 1 - a});
        alpha.push_back({S_CONNECT_R, a, 0});
        if (COPYABLE) alpha.push_back({S_CONNECT_L, a, 0});
        if (COPYABLE) alpha.push_back({S_STORE_LVALUE, a, 0});    // construct / assign from a non-const lvalue sender
        if (COPYABLE) alpha.push_back({S_STORE_LVALUE, a, 1});
        alpha.push_back({S_STORE_FAIL, a, 0});    // assignment of a sender whose construction inside the wrapper throws
        alpha.push_back({S_STORE_FAIL, a, 1});    // the same through reset(sender)
    }
    static const char* opn[] = {"store", "move_assign", "copy_assign", "assign_empty", "reset", "move_construct_temp_then_move_to", "connect_rvalue", "connect_lvalue", "self", "store_from_lvalue", "store_sender_whose_construction_throws"};
    size_t const n = alpha.size();
    for (int ch = 0; ch < 3; ++ch)
    {
        std::vector<size_t> idx;
        // iterative enumeration of all index sequences of length 1..depth
        std::function<void()> rec = [&] {
            if (!idx.empty())
            {
                std::string hs;
                for (size_t i : idx) { char b[64]; snprintf(b, sizeof b, "%s(%d,%d) ", opn[alpha[i].op], alpha[i].a, alpha[i].b); hs += b; }
                seqx::begin_case("%s channel=%d: %s", COPYABLE ? "any_sender" : "unique_any_sender", ch, hs.c_str());
                ++seqx::g->transitions;
                for (int i = 0; i < 4; ++i) g_live[i] = g_ctor[i] = g_dtor[i] = 0;
                g_double_destroy = 0;
                {
                    W w[2];
                    int model[2] = {-1, -1};    // -1 empty, else kind
                    auto connect = [&](W& x, int& m, bool rvalue) {
                        Out o;
                        bool threw = false;
                        int before = m;
                        try
                        {
                            if (rvalue) { auto os = ex::connect(std::move(x), SRec{&o}); ex::start(os); }
                            else if constexpr (COPYABLE) { auto os = ex::connect(x, SRec{&o}); ex::start(os); }
                        }
                        catch (pika::exception const& e) { threw = e.get_error() == pika::error::bad_function_call; }
                        if (before < 0) { SEQX_CHECK(threw && o.nv + o.ne + o.ns == 0, "empty-use", "connecting an empty wrapper did not throw bad_function_call (signals: %d)", o.nv + o.ne + o.ns); return; }
                        SEQX_CHECK(!threw && o.nv + o.ne + o.ns == 1, "completion-count", "connect of a wrapper holding kind %d: threw %d, %d completion signals", before, (int) threw, o.nv + o.ne + o.ns);
                        if (ch == 0) SEQX_CHECK(o.nv == 1 && o.val == before * 100 + 5, "differs-from-unerased", "value %d, the wrapped sender sends %d", o.val, before * 100 + 5);
                        if (ch == 1) SEQX_CHECK(o.ne == 1 && o.err == "E" + std::to_string(before), "differs-from-unerased", "error '%s', the wrapped sender sends E%d", o.err.c_str(), before);
                        if (ch == 2) SEQX_CHECK(o.ns == 1, "differs-from-unerased", "not stopped");
                        if (rvalue) m = -1;
                    };
                    for (size_t i : idx)
                    {
                        SStep st = alpha[i];
                        switch (st.op)
                        {
                        case S_STORE: if (st.b == 0) w[st.a] = Snd<0, 1>{{}, ch}; else w[st.a] = Snd<1, 96>{{}, ch}; model[st.a] = st.b; break;
                        case S_MOVE: w[st.a] = std::move(w[st.b]); model[st.a] = model[st.b]; model[st.b] = -1; break;
                        case S_COPY: if constexpr (COPYABLE) { w[st.a] = w[st.b]; model[st.a] = model[st.b]; } break;
                        case S_ASSIGN_EMPTY: w[st.a] = W{}; model[st.a] = -1; break;
                        case S_RESET: w[st.a].reset(); model[st.a] = -1; break;
                        case S_MOVECONS: { W t(std::move(w[st.a])); int m = model[st.a]; model[st.a] = -1; w[st.b] = std::move(t); model[st.b] = m; } break;
                        case S_CONNECT_R: connect(w[st.a], model[st.a], true); break;
                        case S_CONNECT_L: connect(w[st.a], model[st.a], false); break;
                        case S_STORE_FAIL:
                        {
                            FSnd src;
                            src.ch = ch;
                            bool threw = false;
                            g_fail_wrap = true;
                            try { if (st.b == 0) w[st.a] = std::move(src); else w[st.a].reset(std::move(src)); }
                            catch (std::runtime_error const&) { threw = true; }
                            g_fail_wrap = false;
                            SEQX_CHECK(threw, "differs-from-unerased", "storing a sender whose construction throws did not propagate the exception");
                            // basic guarantee: the slot holds its old content or is empty - and says so truthfully (the
                            // probe connects it, the ledger counts destructions)
                            if (w[st.a].empty()) model[st.a] = -1;
                            break;
                        }
                        case S_STORE_LVALUE:
                            if constexpr (COPYABLE)
                            {
                                LSnd src;
                                src.ch = ch;
                                if (st.b == 0) w[st.a] = src;                 // assignment from an lvalue
                                else { W t(src); w[st.a] = std::move(t); }    // construction from an lvalue
                                model[st.a] = 2;
                                // wrapping changes nothing observable: the original is still what it was
                                SEQX_CHECK(src.tag.size() > 20, "differs-from-unerased", "wrapping a non-const lvalue sender (%s) changed the original: it was moved from", st.b ? "constructor" : "assignment");
                                W again(src);
                                int m2 = 2;
                                connect(again, m2, true);
                            }
                            break;
                        }
                        for (int k = 0; k < 2; ++k)
                            SEQX_CHECK(w[k].empty() == (model[k] < 0), "differs-from-unerased", "after %s(%d,%d): slot %d is %s, the un-erased reference is %s", opn[st.op], st.a, st.b, k, w[k].empty() ? "empty" : "full", model[k] < 0 ? "empty" : "full");
                        int live[3] = {0, 0, 0};
                        for (int k = 0; k < 2; ++k) if (model[k] >= 0) ++live[model[k]];
                        SEQX_CHECK(g_live[0] == live[0] && g_live[1] == live[1], "lifetime-ledger", "after %s(%d,%d): %d small / %d large senders alive, reference %d / %d", opn[st.op], st.a, st.b, g_live[0], g_live[1], live[0], live[1]);
                    }
                    // probe: what the two slots hold now must behave like the reference says
                    for (int k = 0; k < 2; ++k) connect(w[k], model[k], true);
                }
                for (int i = 0; i < 4; ++i)
                    SEQX_CHECK(g_live[i] == 0 && g_ctor[i] == g_dtor[i], "lifetime-ledger", "sender payload kind %d: %d constructed, %d destroyed, %d alive at the end", i, g_ctor[i], g_dtor[i], g_live[i]);
                SEQX_CHECK(g_double_destroy == 0, "double-destroy", "a stored sender was destroyed twice");
                ++seqx::g->states;
            }
            if ((int) idx.size() == depth) return;
            for (size_t i = 0; i < n; ++i) { idx.push_back(i); rec(); idx.pop_back(); }
        };
        rec();
    }
}

int main(int argc, char** argv)
{
    auto o = seqx::parse(argc, argv, "C18");
    o.hang_timeout_s = 15;
    o.quiet_child = true;
    using fn_t = pika::util::detail::function<int(int)>;
    using ufn_t = pika::util::detail::unique_function<int(int)>;
    std::vector<seqx::spec> specs = {
        {"function_histories", [](bool t) { bfs<RealFn<fn_t, true>>(t ? 6 : 4, true, t ? 4 : 3); }, "function<int(int)>: histories over 2 slots x {assign small/large/throwing/empty, copy, self-copy, move, reset, swap, call, copy-construct temp, move-construct temp (dropped / moved back / moved on)}; all histories up to depth 3 (thorough 4) without de-duplication, beyond that one representative per reference state"},
        {"unique_function_histories", [](bool t) { bfs<RealFn<ufn_t, false>>(t ? 6 : 4, false, t ? 4 : 3); }, "unique_function<int(int)>: the same without copies, plus a move-only callable"},
        {"any_sender_scripts", [](bool) { sender_grid<ex::any_sender<int>, true>(); }, "any_sender<int>: 12 move/copy/reset/connect scripts x small/large stored sender x value/error/stopped"},
        {"any_sender_histories", [](bool t) { sender_histories<ex::any_sender<int>, true>(t ? 4 : 3); }, "any_sender<int>: all histories up to depth 3 (thorough 4) over two slots x {store small/large, move-assign, copy-assign, assign empty, reset, move-construct, connect rvalue/lvalue} x value/error/stopped"},
        {"unique_any_sender_histories", [](bool t) { sender_histories<ex::unique_any_sender<int>, false>(t ? 4 : 3); }, "unique_any_sender<int>: the same without copies"},
        {"unique_any_sender_scripts", [](bool) { sender_grid<ex::unique_any_sender<int>, false>(); }, "unique_any_sender<int>: the scripts without copies"},
    };
    return seqx::main_loop(o, specs,
        "BFS over wrapper operation histories (depth 4, thorough 5) de-duplicated on the reference model; every transition replayed on fresh real wrappers and compared step by step with the un-erased behaviour (empty flags, call results incl. per-copy counters, exception kinds, live instances per payload kind); sender wrappers: 12 scripts x 2 storage classes x 3 channels",
        {"sequential code only", "inline buffer boundary: one payload clearly below and one clearly above it"});
}
