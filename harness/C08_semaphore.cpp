// C08: counting / binary / sliding semaphores — permit conservation, blocked acquirers proceed,
// try/timed results truthful.  pmc-rt (tasks on a live 2-worker runtime) + pmc-os (plain threads).
#include "rt_common.h"
#include <pika/semaphore.hpp>
#include <pika/synchronization/sliding_semaphore.hpp>
#include <chrono>
#include <thread>

using namespace std::chrono_literals;
enum Op { ACQ, TRY, REL1, REL2, TIMED, TIMED_SHORT, NOP };
static const char* opn[] = {"acquire", "try_acquire", "release(1)", "release(2)", "try_acquire_for(50ms)", "try_acquire_for(5ms)", "nop"};

struct Ledger
{
    long c = 0;
    long rel_started = 0, rel_done = 0, acquired = 0;
    long in_acquire = 0;
    static const int MAXR = 16;
    uint64_t rel_time[MAXR];
    long rel_n[MAXR];
    int nrel = 0;
    int finished = 0;
    long rescued = 0;
    long permits_before(uint64_t t) const
    {
        long s = 0;
        for (int i = 0; i < nrel; ++i) if (rel_time[i] + 2000 < t) s += rel_n[i];
        return s;
    }
};
static Ledger* g_ledger;
static void on_stuck()
{
    Ledger& L = *g_ledger;
    pmc_note("ledger: initial=%ld released=%ld acquired=%ld tasks_in_acquire=%ld finished=%d", L.c, L.rel_done, L.acquired, L.in_acquire, L.finished);
    if (L.in_acquire > 0 && L.c + L.rel_done - L.acquired >= 1)
        pmc_fail("blocked-acquirer", "%ld task(s) still blocked in acquire although %ld permit(s) are available (initial %ld + released %ld - acquired %ld)",
            L.in_acquire, L.c + L.rel_done - L.acquired, L.c, L.rel_done, L.acquired);
}

template <typename Sem>
static void do_op(Sem& sem, Ledger& L, int op)
{
    switch (op)
    {
    case ACQ:
        ++L.in_acquire;
        sem.acquire();
        --L.in_acquire;
        ++L.acquired;
        PMC_ASSERT(L.acquired <= L.c + L.rel_started, "over-acquire", "acquisitions %ld exceed initial %ld + released %ld", L.acquired, L.c, L.rel_started);
        break;
    case TRY:
        if (sem.try_acquire())
        {
            ++L.acquired;
            PMC_ASSERT(L.acquired <= L.c + L.rel_started, "over-acquire", "try_acquire succeeded: acquisitions %ld exceed initial %ld + released %ld", L.acquired, L.c, L.rel_started);
        }
        break;
    case REL1:
    case REL2:
    {
        long n = op == REL1 ? 1 : 2;
        L.rel_started += n;
        sem.release(n);
        L.rel_done += n;
        if (L.nrel < Ledger::MAXR) { L.rel_time[L.nrel] = pmc_now(); L.rel_n[L.nrel] = n; ++L.nrel; }
        pmc_progress();
    }
    break;
    case TIMED:
    case TIMED_SHORT:
    {
        uint64_t deadline = pmc_now() + (op == TIMED ? 50000000ull : 5000000ull);
        pmc_deadline(deadline);
        ++L.in_acquire;
        bool ok = op == TIMED ? sem.try_acquire_for(50ms) : sem.try_acquire_for(5ms);
        --L.in_acquire;
        if (ok)
        {
            ++L.acquired;
            PMC_ASSERT(L.acquired <= L.c + L.rel_started, "over-acquire", "timed acquire succeeded: acquisitions %ld exceed initial %ld + released %ld", L.acquired, L.c, L.rel_started);
        }
        else
        {
            // permits fully released before the deadline, minus everything consumed so far, minus
            // every other task currently inside an acquire call (it may be the rightful taker)
            long surplus = L.c + L.permits_before(deadline) - L.acquired - L.in_acquire;
            PMC_ASSERT(surplus < 1, "timed-acquire-missed",
                "try_acquire_for returned false although %ld permit(s) released before its deadline were never taken (initial %ld, released before deadline %ld, acquired %ld, others waiting %ld)",
                surplus, L.c, L.permits_before(deadline), L.acquired, L.in_acquire);
        }
    }
    break;
    default: break;
    }
}

// sufficient condition for "every schedule terminates": the initial permits plus the releases that
// are not behind a blocking acquire of their own task cover every possible taker
static bool terminates(long c, const int* ops, int ntasks, int per_task)
{
    long rel = 0, takers = 0;
    for (int t = 0; t < ntasks; ++t)
    {
        bool behind_acquire = false;
        for (int i = 0; i < per_task; ++i)
        {
            int op = ops[t * per_task + i];
            if (!behind_acquire && op == REL1) rel += 1;
            if (!behind_acquire && op == REL2) rel += 2;
            if (op == ACQ || op == TRY || op == TIMED || op == TIMED_SHORT) ++takers;
            if (op == ACQ) behind_acquire = true;
        }
    }
    return c + rel >= takers;
}

template <typename Sem>
static void final_check(Sem& sem, Ledger& L, int T)
{
    PMC_ASSERT(L.finished == T, "task-lost", "%d of %d tasks finished", L.finished, T);
    long value = (long) sem.sem_.value_;
    PMC_ASSERT(value == L.c + L.rel_done - L.acquired, "permit-lost", "final count %ld != initial %ld + released %ld - acquired %ld", value, L.c, L.rel_done, L.acquired);
    pmc_outcome("c=%ld rel=%ld acq=%ld rescued=%ld", L.c, L.rel_done, L.acquired, L.rescued);
}

// T tasks, OPS ops each, alphabet size ALPHA (prefix of Op)
template <typename Sem, int T, int OPS, int ALPHA, int CMAX>
static void sem_tasks()
{
    Ledger L;
    g_ledger = &L;
    L.c = pmc_choose(CMAX + 1, 0);
    int ops[T * OPS];
    int nwords = 1;
    for (int i = 0; i < OPS; ++i) nwords *= ALPHA;
    int prev = 0;
    for (int t = 0; t < T; ++t)
    {
        int w = prev + pmc_choose(nwords - prev, 0);
        prev = w;
        for (int i = 0; i < OPS; ++i) { ops[t * OPS + i] = w % ALPHA; w /= ALPHA; }
    }
    bool needs_rescue = !terminates(L.c, ops, T, OPS);
    Sem sem(L.c);
    pmc_watch(&sem, sizeof sem, "semaphore");
    pmc_on_stuck(on_stuck);
    rt::start();
    for (int t = 0; t < T; ++t)
        rt::spawn([&, t] {
            rt::watch_self(t == 0 ? "task0" : t == 1 ? "task1" : "task2");
            for (int i = 0; i < OPS; ++i) do_op(sem, L, ops[t * OPS + i]);
            ++L.finished;
        });
    if (needs_rescue)
        // programs in which a blocking acquire can legitimately starve (try/timed takers may win the
        // permits): a rescuer adds a permit only when every unfinished task sits in acquire() AND the
        // semaphore holds no permit - so a lost wake-up (permit present, acquirer blocked) stays stuck
        rt::spawn([&] {
            // no iteration limit: a schedule in which the rescuer runs long before the takers start must
            // not make it give up (thorough-tier false alarm sem_2x2/stuck); if nothing can move any more
            // the stuck detector ends the execution
            while (L.finished < T)
            {
                if (L.in_acquire > 0 && L.in_acquire == T - L.finished && (long) sem.sem_.value_ < 1)
                {
                    L.rel_started += 1;
                    sem.release(1);
                    L.rel_done += 1;
                    ++L.rescued;
                }
                pika::this_thread::yield();
            }
        });
    rt::stop();
    final_check(sem, L, T);
}

// directed: two tasks blocked in acquire() on an empty semaphore, then two permits released - by two
// back-to-back release(1) calls of one task, by one release(2), or by release(1) calls of two tasks.
// The second release may come before the waiter woken by the first has consumed its permit.
template <typename Sem>
static void sem_two_blocked()
{
    Ledger L;
    g_ledger = &L;
    L.c = 0;
    int form = pmc_choose(3, 0);
    int wait_blocked = pmc_choose(2, 0);    // releasers wait until both acquirers are inside acquire()
    Sem sem(0);
    pmc_watch(&sem, sizeof sem, "semaphore");
    pmc_on_stuck(on_stuck);
    rt::start();
    for (int t = 0; t < 2; ++t)
        rt::spawn([&, t] {
            rt::watch_self(t == 0 ? "task0" : "task1");
            do_op(sem, L, ACQ);
            ++L.finished;
        });
    auto releaser = [&](int nops, int op) {
        return [&, nops, op] {
            if (wait_blocked) { int guard = 0; while (L.in_acquire < 2 && ++guard < 200) pika::this_thread::yield(); }
            for (int i = 0; i < nops; ++i) do_op(sem, L, op);
            ++L.finished;
        };
    };
    int T = 3;
    if (form == 0) rt::spawn(releaser(2, REL1));
    else if (form == 1) rt::spawn(releaser(1, REL2));
    else { rt::spawn(releaser(1, REL1)); rt::spawn(releaser(1, REL1)); T = 4; }
    rt::stop();
    final_check(sem, L, T);
}

// same programs on plain OS threads (no runtime): untimed ops only
template <typename Sem, int T, int ALPHA, int CMAX>
static void sem_os()
{
    Ledger L;
    g_ledger = &L;
    L.c = pmc_choose(CMAX + 1, 0);
    int ops[T];
    int prev = 0;
    for (int t = 0; t < T; ++t) { ops[t] = prev + pmc_choose(ALPHA - prev, 0); prev = ops[t]; }
    if (!terminates(L.c, ops, T, 1)) { pmc_outcome("skipped"); return; }
    Sem sem(L.c);
    pmc_watch(&sem, sizeof sem, "semaphore");
    pmc_focus_pthread(1);
    pmc_on_stuck(on_stuck);
    std::vector<std::thread> th;
    for (int t = 0; t < T; ++t) th.emplace_back([&, t] { do_op(sem, L, ops[t]); ++L.finished; });
    for (auto& x : th) x.join();
    final_check(sem, L, T);
}

// sequential histories on one task against the obvious reference model (exact results)
static void sem_sequential()
{
    long c = pmc_choose(3, 0);
    int len = pmc_choose(5, 0);
    int ops[4];
    for (int i = 0; i < len; ++i) ops[i] = pmc_choose(4, 0);    // TRY, REL1, REL2, TIMED(non-blocking when permits exist)
    pika::counting_semaphore<> sem(c);
    int done = 0;
    rt::start();
    rt::spawn([&] {
        long ref = c;
        for (int i = 0; i < len; ++i)
        {
            switch (ops[i])
            {
            case 0: { bool r = sem.try_acquire(); PMC_ASSERT(r == (ref >= 1), "seq-try", "try_acquire returned %d with %ld permits", (int) r, ref); if (r) --ref; } break;
            case 1: sem.release(1); ref += 1; break;
            case 2: sem.release(2); ref += 2; break;
            case 3: if (ref >= 1) { bool r = sem.try_acquire_for(1ms); PMC_ASSERT(r, "seq-timed", "try_acquire_for failed with %ld permits available", ref); --ref; } break;
            }
            PMC_ASSERT((long) sem.sem_.value_ == ref, "seq-count", "count %ld, reference %ld after %d ops", (long) sem.sem_.value_, ref, i + 1);
        }
        done = 1;
    });
    rt::stop();
    PMC_ASSERT(done, "task-lost", "sequential task did not finish");
    pmc_outcome("c=%ld len=%d", c, len);
}

// sliding semaphore: wait(u) passes once u - max_difference <= (largest signalled lower limit)
static Ledger g_dummy;
struct Slide { long maxsig_started = 0, maxsig_done = 0; int waiting = 0; long blocked_u = 0; int finished = 0; long d = 1; };
static Slide* g_slide;
static void slide_stuck()
{
    Slide& S = *g_slide;
    if (S.waiting > 0) pmc_fail("sliding-blocked", "a task is still blocked in wait(%ld) although lower limit %ld was signalled (max_difference %ld)", S.blocked_u, S.maxsig_done, S.d);
}
template <int W>
static void sliding_tasks()
{
    Slide S;
    g_slide = &S;
    S.d = 1 + pmc_choose(2, 0);
    long u[W];
    int form[W];
    for (int i = 0; i < W; ++i) { u[i] = 2 + pmc_choose(2, 0); form[i] = pmc_choose(2, 0); }
    long sig[2] = {1, 1 + pmc_choose(2, 0)};
    long maxsig = sig[0] > sig[1] ? sig[0] : sig[1];
    for (int i = 0; i < W; ++i) if (form[i] == 0 && u[i] - S.d > maxsig) { pmc_outcome("skipped"); return; }
    pika::sliding_semaphore sem(S.d, 0);
    pmc_watch(&sem, sizeof sem, "sliding_semaphore");
    pmc_on_stuck(slide_stuck);
    int tw_ok = 0;
    rt::start();
    for (int i = 0; i < W; ++i)
        rt::spawn([&, i] {
            rt::watch_self(i == 0 ? "waiter0" : "waiter1");
            if (form[i] == 0)
            {
                ++S.waiting;
                S.blocked_u = u[i];
                sem.wait(u[i]);
                --S.waiting;
                PMC_ASSERT(u[i] - S.d <= S.maxsig_started, "sliding-early", "wait(%ld) returned although only lower limit %ld was signalled (max_difference %ld)", u[i], S.maxsig_started, S.d);
            }
            else
            {
                bool r = sem.try_wait(u[i]);
                if (r) { ++tw_ok; PMC_ASSERT(u[i] - S.d <= S.maxsig_started, "sliding-try-early", "try_wait(%ld) succeeded with lower limit %ld (max_difference %ld)", u[i], S.maxsig_started, S.d); }
                else PMC_ASSERT(u[i] - S.d > S.maxsig_done, "sliding-try-missed", "try_wait(%ld) failed although lower limit %ld had been signalled (max_difference %ld)", u[i], S.maxsig_done, S.d);
            }
            ++S.finished;
        });
    rt::spawn([&] {
        rt::watch_self("signaller");
        for (int k = 0; k < 2; ++k)
        {
            if (sig[k] > S.maxsig_started) S.maxsig_started = sig[k];
            sem.signal(sig[k]);
            if (sig[k] > S.maxsig_done) S.maxsig_done = sig[k];
            pmc_progress();
        }
        ++S.finished;
    });
    rt::stop();
    PMC_ASSERT(S.finished == W + 1, "task-lost", "%d of %d tasks finished", S.finished, W + 1);
    pmc_outcome("d=%ld try_ok=%d", S.d, tw_ok);
}

// sliding semaphore, reconfigured while a task is blocked: wait(u) blocks with distance d and lower
// limit l (u - d > l); set_max_difference(D, l) makes the signalled lower bound lie within the configured
// distance (u - D <= l); the next signal - signal_all() or a non-advancing signal(l) - must release the
// waiter.
static void sliding_reconfigure()
{
    Slide S;
    g_slide = &S;
    int wake_form = pmc_choose(2, 0);    // 0: signal_all(), 1: signal(l) with the unchanged lower limit
    long const d = 2, l = 3, u = 10, D = 20;
    S.d = D;
    pika::sliding_semaphore sem(d, l);
    pmc_watch(&sem, sizeof sem, "sliding_semaphore");
    pmc_on_stuck(slide_stuck);
    static int reconfigured;
    reconfigured = 0;
    rt::start();
    rt::spawn([&] {
        rt::watch_self("waiter0");
        ++S.waiting;
        S.blocked_u = u;
        sem.wait(u);
        --S.waiting;
        PMC_ASSERT(reconfigured, "sliding-early", "wait(%ld) returned with max_difference %ld and lower limit %ld", u, d, l);
        ++S.finished;
    });
    rt::spawn([&] {
        rt::watch_self("signaller");
        int guard = 0;
        while (!S.waiting && ++guard < 300) pika::this_thread::yield();
        reconfigured = 1;
        sem.set_max_difference(D, l);
        S.maxsig_started = S.maxsig_done = l;
        if (wake_form == 0) sem.signal_all(); else sem.signal(l);
        pmc_progress();
        ++S.finished;
    });
    rt::stop();
    PMC_ASSERT(S.finished == 2, "task-lost", "%d of 2 tasks finished", S.finished);
    pmc_outcome("wake_form=%d", wake_form);
}

// sliding semaphore at the boundaries of its 64-bit quantities (non-negative limits, distances up to INT64_MAX -
// "no throttling"): try_wait(u) is true exactly if u - d <= lower limit (evaluated in 128 bits), and wait(u) returns
// in that case; a waiter blocked with an enormous u is released by the signal that brings the limit within distance.
// Input enumeration on one task (+ one blocked waiter): default schedule, no scheduling choices.
static void sliding_boundaries()
{
    static const long M = INT64_MAX;
    static const long ds[] = {0, 1, 6, 1L << 31, 1L << 62, M - 2, M - 1, M};
    static const long ls[] = {0, 1, 3, 1L << 62, M - 1, M};
    static const long us[] = {0, 1, 10, (1L << 62) + 5, M - 1, M};
    long d = ds[pmc_choose(8, 0)], l0 = ls[pmc_choose(6, 0)], sig = ls[pmc_choose(6, 0)];
    Slide S;
    g_slide = &S;
    S.d = d;
    pika::sliding_semaphore sem(d, l0);
    pmc_on_stuck(slide_stuck);
    rt::start();
    rt::spawn([&] {
        rt::watch_self("waiter0");
        long lower = l0;
        for (int round = 0; round < 2; ++round)
        {
            for (long u : us)
            {
                bool within = (__int128) u - (__int128) d <= (__int128) lower;
                bool r = sem.try_wait(u);
                PMC_ASSERT(r == within, within ? "sliding-try-missed" : "sliding-try-early", "try_wait(%ld) returned %d with max_difference %ld and lower limit %ld", u, (int) r, d, lower);
                if (within) sem.wait(u);    // must not block
            }
            sem.signal(sig);
            if (sig > lower) lower = sig;
            S.maxsig_started = S.maxsig_done = lower;
        }
        ++S.finished;
    });
    rt::stop();
    PMC_ASSERT(S.finished == 1, "task-lost", "task did not finish");
    pmc_outcome("d=%ld l0=%ld sig=%ld", d, l0, sig);
}
// blocked waiter with a boundary distance: wait(u) blocks (u - d > l), signal(u - d) releases it
static void sliding_boundary_blocked()
{
    static const long M = INT64_MAX;
    static const long ds[] = {1, 1L << 62, M - 2, M - 1};
    long d = ds[pmc_choose(4, 0)], l0 = pmc_choose(2, 0), u = M;
    Slide S;
    g_slide = &S;
    S.d = d;
    pika::sliding_semaphore sem(d, l0);
    pmc_watch(&sem, sizeof sem, "sliding_semaphore");
    pmc_on_stuck(slide_stuck);
    rt::start();
    rt::spawn([&] {
        rt::watch_self("waiter0");
        ++S.waiting;
        S.blocked_u = u;
        sem.wait(u);
        --S.waiting;
        PMC_ASSERT((S.maxsig_started > l0 ? S.maxsig_started : l0) >= u - d, "sliding-early", "wait(%ld) returned although only lower limit %ld was signalled (initial %ld, max_difference %ld)", u, S.maxsig_started, l0, d);
        ++S.finished;
    });
    rt::spawn([&] {
        rt::watch_self("signaller");
        int guard = 0;
        while (!S.waiting && ++guard < 300) pika::this_thread::yield();
        S.maxsig_started = u - d;
        sem.signal(u - d);
        S.maxsig_done = u - d;
        pmc_progress();
        ++S.finished;
    });
    rt::stop();
    PMC_ASSERT(S.finished == 2, "task-lost", "%d of 2 tasks finished", S.finished);
    pmc_outcome("d=%ld l0=%ld", d, l0);
}

int main(int argc, char** argv)
{
    static const char* focus = "F-addr: the semaphore object (value_, internal spinlock, waiter queue) + each task's thread_data";
    static const pmc_spec specs[] = {
        {"sem_seq", sem_sequential, 0, 0, 0.05, 0.03, 0, "sequential histories depth<=4 (data choices)", nullptr, nullptr},
        {"sem_timed_pair", sem_tasks<pika::counting_semaphore<>, 2, 1, 6, 1>, 1, 2, 0.2, 0.15, 1, focus, nullptr, nullptr},
        {"sem_3x1", sem_tasks<pika::counting_semaphore<>, 3, 1, 6, 2>, 1, 2, 0.25, 0.25, 1, focus, nullptr, nullptr},
        {"sem_2x2", sem_tasks<pika::counting_semaphore<>, 2, 2, 3, 1>, 1, 2, 0.15, 0.15, 1, focus, nullptr, nullptr},
        {"sem_two_blocked", sem_two_blocked<pika::counting_semaphore<>>, 1, 2, 0.1, 0.1, 1, focus, nullptr, nullptr},
        {"binary_2x1", sem_tasks<pika::binary_semaphore<>, 2, 1, 5, 1>, 1, 2, 0.05, 0.05, 1, focus, nullptr, nullptr},
        {"sliding_2", sliding_tasks<2>, 1, 2, 0.15, 0.2, 1, "F-addr: sliding_semaphore (lower_limit_, max_difference_, spinlock, queue) + thread_data", nullptr, nullptr},
        {"sliding_boundaries", sliding_boundaries, 0, 0, 0.03, 0.02, 0, "boundary inputs: distances and limits up to INT64_MAX (input enumeration, default schedule)", nullptr, nullptr},
        {"sliding_boundary_blocked", sliding_boundary_blocked, 1, 2, 0.04, 0.03, 1, "a waiter blocked with upper limit INT64_MAX and a boundary distance, released by one signal", nullptr, nullptr},
        {"sliding_reconfigure", sliding_reconfigure, 1, 2, 0.05, 0.05, 1, "F-addr: sliding_semaphore + thread_data; set_max_difference while a task is blocked, then signal_all / non-advancing signal", nullptr, nullptr},
        {"sem_os_3", sem_os<pika::counting_semaphore<>, 3, 4, 2>, 1, 3, 0.05, 0.07, 1, "F-addr: semaphore; all pthread lock/cond operations of the default agent", nullptr, nullptr},
    };
    static const char* assumptions[] = {"sequentially consistent interleavings only", "2 worker threads; 2-3 tasks; 1-2 operations each", "timed acquires: 50 ms virtual deadline; 'deadline passes here' is an explorer deviation"};
    pmc_config cfg{};
    cfg.property_id = "C08";
    cfg.rule = "initial count x op words over {acquire, try_acquire, release(1), release(2), try_acquire_for(50 ms), try_acquire_for(5 ms)} (data choices, programs that cannot terminate are skipped) x all schedules within the deviation bound";
    cfg.assumptions = assumptions;
    cfg.n_assumptions = 3;
    cfg.warmup = rt::warmup;
    cfg.quick_budget_s = 100;
    cfg.thorough_budget_s = 900;
    return pmc_main(argc, argv, &cfg, specs, sizeof specs / sizeof specs[0]);
}
