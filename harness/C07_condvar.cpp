// C07: pika condition variables never lose a notification.  pmc-rt (tasks, 2 workers) + pmc-os.
#include "rt_common.h"
#include <pika/condition_variable.hpp>
#include <pika/mutex.hpp>
#include <pika/synchronization/stop_token.hpp>
#include <pika/concurrency/spinlock.hpp>
#include <chrono>
#include <mutex>
#include <thread>

using namespace std::chrono_literals;

struct State
{
    int flag = 0;           // guarded by the user lock
    int occ = 0;            // occupancy of the user lock (plain)
    int waiting = 0;        // waiters that announced (under the user lock) that they are about to wait
    int returned = 0, finished = 0;
    int seen_waiting_at_notify = -1;
    uint64_t t_notified = 0;    // virtual time at which the notification call returned
    int timeouts = 0;
};
static State* g_st;
static int g_W;
static void on_stuck()
{
    State& s = *g_st;
    if (s.returned < g_W && s.t_notified)
        pmc_fail("lost-notification", "%d of %d waiters returned although flag=%d was set under the user lock and the notification was issued", s.returned, g_W, s.flag);
}
template <typename L> static void in_cs(State& s, L&) { ++s.occ; PMC_ASSERT(s.occ == 1, "user-lock-not-held", "user lock occupancy %d after wait returned / inside notifier section", s.occ); --s.occ; }

enum WForm { W_LOOP, W_PRED, W_FOR_PRED, W_UNTIL_LOOP, NWFORM };
enum NForm { N_ALL, N_ONE_EACH, N_ALL_LOCKED, NNFORM };

template <typename CV, typename M, typename Spawn>
static void body(int W, const int* wform, int nform, Spawn spawn)
{
    static State s;
    s = State{};
    g_st = &s;
    g_W = W;
    // the objects must outlive this function (tasks run until rt::stop / join): leak them
    CV& cv = *new CV;
    M& m = *new M;
    pmc_watch(&cv, sizeof cv, "cv");
    pmc_watch(cv.data_.get(), sizeof(*cv.data_.get()), "cv_data");
    pmc_watch(&m, sizeof m, "user_lock");
    pmc_on_stuck(on_stuck);
    for (int w = 0; w < W; ++w)
        spawn(w, [&cv, &m, w, W, wform = std::vector<int>(wform, wform + W), nform] {
            std::unique_lock<M> l(m);
            in_cs(s, m);
            bool timed_out_status = false;
            uint64_t deadline = 0;
            switch (wform[w])
            {
            case W_LOOP:
                while (!s.flag) { ++s.waiting; cv.wait(l); --s.waiting; in_cs(s, m); }
                break;
            case W_PRED:
                ++s.waiting;
                cv.wait(l, [&] { return s.flag != 0; });
                --s.waiting;
                break;
            case W_FOR_PRED:
            {
                ++s.waiting;
                deadline = pmc_now() + 50000000ull;
                pmc_deadline(deadline);
                bool r = cv.wait_for(l, 50ms, [&] { return s.flag != 0; });
                --s.waiting;
                PMC_ASSERT(r == (s.flag != 0), "pred-value", "wait_for(pred) returned %d but the predicate is %d", (int) r, s.flag);
                if (!r) ++s.timeouts;
                break;
            }
            case W_UNTIL_LOOP:
            {
                deadline = pmc_now() + 50000000ull;
                pmc_deadline(deadline);
                auto abs = std::chrono::steady_clock::now() + 50ms;
                while (!s.flag)
                {
                    ++s.waiting;
                    pika::cv_status st = cv.wait_until(l, abs);
                    --s.waiting;
                    in_cs(s, m);
                    if (st == pika::cv_status::timeout)
                    {
                        timed_out_status = true;
                        // notify_all that saw this waiter registered and returned before the deadline
                        if (nform != N_ONE_EACH && s.seen_waiting_at_notify >= 1 && s.t_notified && s.t_notified + 2000 < deadline && W == 1)
                            pmc_fail("timeout-despite-notify", "wait_until reported a timeout although notify_all returned %.3f ms before the deadline while the waiter was registered", (deadline - s.t_notified) / 1e6);
                        break;
                    }
                }
                if (timed_out_status) ++s.timeouts;
                break;
            }
            }
            PMC_ASSERT(l.owns_lock(), "user-lock-not-held", "wait returned without owning the user lock");
            in_cs(s, m);
            ++s.returned;
            l.unlock();
            ++s.finished;
        });
    spawn(W, [&cv, &m, W, nform] {
        {
            std::unique_lock<M> l(m);
            in_cs(s, m);
            s.flag = 1;
            s.seen_waiting_at_notify = s.waiting;
            if (nform == N_ALL_LOCKED) cv.notify_all();
        }
        if (nform == N_ALL) cv.notify_all();
        if (nform == N_ONE_EACH) for (int i = 0; i < W; ++i) cv.notify_one();
        s.t_notified = pmc_now();
        pmc_progress();
        ++s.finished;
    });
}

template <typename CV, typename M, int W>
static void cv_tasks()
{
    int wform[W];
    int prev = 0;
    for (int w = 0; w < W; ++w) { wform[w] = prev + pmc_choose(NWFORM - prev, 0); prev = wform[w]; }
    int nform = pmc_choose(NNFORM, 0);
    rt::start();
    body<CV, M>(W, wform, nform, [&](int i, auto f) {
        rt::spawn([f, i] { rt::watch_self(i == 0 ? "t0" : i == 1 ? "t1" : "t2"); f(); });
    });
    rt::stop();
    State& s = *g_st;
    PMC_ASSERT(s.finished == W + 1, "task-lost", "%d of %d tasks finished", s.finished, W + 1);
    pmc_outcome("returned=%d timeouts=%d seen_waiting=%d", s.returned, s.timeouts, s.seen_waiting_at_notify);
}

// plain OS threads, condition_variable_any + std::mutex (untimed forms only)
template <int W>
static void cv_os()
{
    int wform[W];
    int prev = 0;
    for (int w = 0; w < W; ++w) { wform[w] = prev + pmc_choose(2 - prev, 0); prev = wform[w]; }
    int nform = pmc_choose(NNFORM, 0);
    pmc_focus_pthread(1);
    std::vector<std::thread> th;
    body<pika::condition_variable_any, std::mutex>(W, wform, nform, [&](int, auto f) { th.emplace_back(f); });
    for (auto& t : th) t.join();
    State& s = *g_st;
    PMC_ASSERT(s.finished == W + 1, "task-lost", "%d of %d threads finished", s.finished, W + 1);
    pmc_outcome("returned=%d seen_waiting=%d", s.returned, s.seen_waiting_at_notify);
}

// stop-token wait returns once stop is requested
template <int TIMED>
static void cv_stop_token()
{
    int also_flag = pmc_choose(2, 0);
    static State s;
    s = State{};
    g_st = &s;
    g_W = 1;
    pika::condition_variable_any cv;
    pika::mutex m;
    pika::stop_source src;
    pmc_watch(&cv, sizeof cv, "cv");
    pmc_watch(cv.data_.get(), sizeof(*cv.data_.get()), "cv_data");
    pmc_watch(&m, sizeof m, "user_lock");
    pmc_watch(src.state_.get(), sizeof(*src.state_.get()), "stop_state");
    pmc_on_stuck(on_stuck);
    int result = -1;
    rt::start();
    rt::spawn([&] {
        rt::watch_self("waiter");
        std::unique_lock<pika::mutex> l(m);
        bool r;
        if (TIMED) { pmc_deadline(pmc_now() + 50000000ull); r = cv.wait_for(l, src.get_token(), 50ms, [&] { return s.flag != 0; }); }
        else r = cv.wait(l, src.get_token(), [&] { return s.flag != 0; });
        PMC_ASSERT(l.owns_lock(), "user-lock-not-held", "stop-token wait returned without the user lock");
        in_cs(s, m);
        PMC_ASSERT(r == (s.flag != 0), "pred-value", "stop-token wait returned %d but the predicate is %d", (int) r, s.flag);
        if (!TIMED) PMC_ASSERT(r || src.stop_requested(), "stop-wait-early", "stop-token wait returned false before stop was requested");
        result = r;
        ++s.returned;
        ++s.finished;
    });
    rt::spawn([&] {
        rt::watch_self("stopper");
        if (also_flag) { std::unique_lock<pika::mutex> l(m); s.flag = 1; }
        src.request_stop();
        if (also_flag) cv.notify_all();
        s.t_notified = pmc_now();
        pmc_progress();
        ++s.finished;
    });
    rt::stop();
    PMC_ASSERT(s.finished == 2, "task-lost", "%d of 2 tasks finished", s.finished);
    pmc_outcome("result=%d also_flag=%d", result, also_flag);
}

// one notify_one for two waiters, one of them timed without predicate: the notification must reach a waiter
// that reports it - the untimed waiter returns, or the timed one returns no_timeout.  (A timed waiter whose
// deadline has just passed must not swallow the notification and still report a timeout.)
struct Mixed { int a_waiting = 0, b_waiting = 0, a_returned = 0, b_returned = 0, b_notified = 0, issued = 0, finished = 0; };
static Mixed* g_mixed;
static void mixed_stuck()
{
    Mixed& x = *g_mixed;
    if (x.issued && !x.a_returned && !(x.b_returned && x.b_notified))
        pmc_fail("lost-notification", "notify_one was issued while the untimed waiter was waiting, but it never returned and the timed waiter %s", x.b_returned ? "reported a timeout" : "did not return either");
}
template <typename CV, typename M>
static void cv_timed_and_untimed()
{
    static Mixed x;
    x = Mixed{};
    g_mixed = &x;
    int b_first = pmc_choose(2, 0);    // which waiter is queued first
    auto& m = *new M;
    auto& cv = *new CV;
    pmc_watch(&cv, sizeof cv, "cv");
    pmc_watch(cv.data_.get(), sizeof *cv.data_, "cv_data");
    pmc_on_stuck(mixed_stuck);
    rt::start();
    rt::spawn([&, b_first] {    // A: untimed
        rt::watch_self("A");
        int guard = 0;
        while (b_first && !x.b_waiting && ++guard < 300) pika::this_thread::yield();
        std::unique_lock<M> l(m);
        x.a_waiting = 1;
        cv.wait(l);
        x.a_returned = 1;
        pmc_progress();
        l.unlock();
        ++x.finished;
    });
    rt::spawn([&, b_first] {    // B: timed, no predicate
        rt::watch_self("B");
        int guard = 0;
        while (!b_first && !x.a_waiting && ++guard < 300) pika::this_thread::yield();
        std::unique_lock<M> l(m);
        x.b_waiting = 1;
        pmc_deadline(pmc_now() + 1000000ull);
        auto st = cv.wait_for(l, 1ms);
        x.b_notified = st == pika::cv_status::no_timeout;
        x.b_returned = 1;
        pmc_progress();
        l.unlock();
        ++x.finished;
    });
    rt::spawn([&] {    // notifier
        int guard = 0;
        for (;;)
        {
            {
                std::unique_lock<M> l(m);
                if (x.a_waiting && x.b_waiting) break;
            }
            if (++guard > 400) { pmc_fail("harness", "waiters did not register"); }
            pika::this_thread::yield();
        }
        {
            std::unique_lock<M> l(m);
            if (!x.a_returned) x.issued = 1;    // A is in the queue: somebody must get this notification
        }
        cv.notify_one();
        pmc_progress();
        // if the timed waiter took the notification, release the untimed one with a second notification
        guard = 0;
        while (!x.b_returned && !x.a_returned && ++guard < 4000) pika::this_thread::yield();
        while (!x.b_returned && ++guard < 8000) pika::this_thread::yield();
        if (x.b_notified && !x.a_returned) cv.notify_one();
        ++x.finished;
    });
    rt::stop();
    PMC_ASSERT(x.finished == 3 && x.a_returned && x.b_returned, "lost-notification", "finished %d of 3: untimed waiter returned %d, timed waiter returned %d (notified %d)", x.finished, x.a_returned, x.b_returned, x.b_notified);
    pmc_outcome("b_first=%d b_notified=%d", b_first, x.b_notified);
}

// a stop-token wait that is not alone on its condition variable: another waiter (a plain predicate wait, or
// a stop-token wait on a different stop_source) is queued in front of it; stop is requested for the second
// one only - it must return, the first one must keep waiting until it is released separately
static void cv_stop_two_waiters()
{
    int first_kind = pmc_choose(2, 0);    // 0: plain wait(pred), 1: stop-token wait on another source
    static State s;
    s = State{};
    g_st = &s;
    g_W = 1;
    pika::condition_variable_any cv;
    pika::mutex m;
    pika::stop_source src, other;
    pmc_watch(&cv, sizeof cv, "cv");
    pmc_watch(cv.data_.get(), sizeof(*cv.data_.get()), "cv_data");
    pmc_watch(src.state_.get(), sizeof(*src.state_.get()), "stop_state");
    static int first_waiting, first_returned, second_waiting, release_first;
    first_waiting = first_returned = second_waiting = release_first = 0;
    pmc_on_stuck([] { if (g_st->t_notified && g_st->returned < 1) pmc_fail("lost-notification", "stop was requested but the stop-token wait did not return (another waiter is queued in front of it on the same condition variable)"); });
    rt::start();
    rt::spawn([&, first_kind] {
        rt::watch_self("first");
        std::unique_lock<pika::mutex> l(m);
        first_waiting = 1;
        if (first_kind == 0) cv.wait(l, [&] { return release_first != 0; });
        else cv.wait(l, other.get_token(), [&] { return release_first != 0; });
        first_returned = 1;
        ++s.finished;
    });
    rt::spawn([&] {
        rt::watch_self("waiter");
        int guard = 0;
        while (!first_waiting && ++guard < 300) pika::this_thread::yield();
        std::unique_lock<pika::mutex> l(m);    // acquired only once the first waiter has released it inside wait: queued behind it
        second_waiting = 1;
        bool r = cv.wait(l, src.get_token(), [&] { return false; });
        PMC_ASSERT(!r && src.stop_requested(), "stop-wait-early", "stop-token wait returned %d, stop requested %d", (int) r, (int) src.stop_requested());
        ++s.returned;
        pmc_progress();
        l.unlock();
        ++s.finished;
    });
    rt::spawn([&] {
        rt::watch_self("stopper");
        for (;;)
        {
            { std::unique_lock<pika::mutex> l(m); if (first_waiting && second_waiting) break; }
            pika::this_thread::suspend(pika::threads::detail::thread_schedule_state::pending, "C07 stopper");
        }
        src.request_stop();
        s.t_notified = pmc_now();
        pmc_progress();
        // only once the stopped waiter is back is the first one released (by the flag + a notification)
        while (s.returned < 1) pika::this_thread::suspend(pika::threads::detail::thread_schedule_state::pending, "C07 stopper");
        { std::unique_lock<pika::mutex> l(m); release_first = 1; }
        cv.notify_all();
        ++s.finished;
    });
    rt::stop();
    PMC_ASSERT(s.finished == 3 && first_returned, "task-lost", "%d of 3 tasks finished (first waiter returned %d)", s.finished, first_returned);
    pmc_outcome("first_kind=%d", first_kind);
}

// A waiter that leaves wait() through an exception (thread::interrupt while it is blocked) must not stay behind as
// a waiter: the notify_one issued afterwards belongs to the remaining waiter.  order: which of the two queues first.
template <typename CV>
static void cv_interrupted_waiter()
{
    int order = pmc_choose(2, 0);    // 0: the waiter that will be interrupted queues first
    static State s;
    s = State{};
    g_st = &s;
    g_W = 1;
    CV cv;
    pika::mutex m;
    pmc_watch(&cv, sizeof cv, "cv");
    if constexpr (std::is_same_v<CV, pika::condition_variable_any>) pmc_watch(cv.data_.get(), sizeof(*cv.data_.get()), "cv_data");
    static int waiting[2], flag, interrupted, victim_done;
    waiting[0] = waiting[1] = flag = interrupted = victim_done = 0;
    pmc_on_stuck([] { if (g_st->t_notified && g_st->returned < 1) pmc_fail("lost-notification", "notify_one was issued with the user lock taken after the remaining waiter had released it, but that waiter did not return (another waiter had left its wait through an interruption before)"); });
    rt::start();
    rt::spawn([&, order] {
        rt::watch_self("controller");
        pika::thread victim([&, order] {
            rt::watch_self("victim");
            auto ready = [&] { return order == 0 || waiting[1]; };
            while (!ready()) pika::this_thread::suspend(pika::threads::detail::thread_schedule_state::pending, "C07 victim");
            std::unique_lock<pika::mutex> l(m);
            waiting[0] = 1;
            try { while (!flag) cv.wait(l); }
            catch (pika::thread_interrupted const&) { interrupted = 1; }
            PMC_ASSERT(l.owns_lock(), "user-lock-not-held", "wait left through an interruption without the user lock");
            victim_done = 1;
        });
        for (;;)
        {
            { std::unique_lock<pika::mutex> l(m); if (waiting[0] && waiting[1]) break; }
            pika::this_thread::suspend(pika::threads::detail::thread_schedule_state::pending, "C07 controller");
        }
        victim.interrupt();
        victim.join();
        PMC_ASSERT(interrupted, "interrupt-delivery", "the blocked waiter was interrupted and joined but did not see thread_interrupted");
        { std::unique_lock<pika::mutex> l(m); flag = 1; }
        cv.notify_one();
        s.t_notified = pmc_now();
        pmc_progress();
        ++s.finished;
    });
    rt::spawn([&, order] {
        rt::watch_self("waiter");
        while (order == 0 && !waiting[0]) pika::this_thread::suspend(pika::threads::detail::thread_schedule_state::pending, "C07 waiter");
        std::unique_lock<pika::mutex> l(m);
        waiting[1] = 1;
        while (!flag) cv.wait(l);
        ++s.returned;
        pmc_progress();
        l.unlock();
        ++s.finished;
    });
    rt::stop();
    PMC_ASSERT(s.finished == 2 && victim_done, "task-lost", "%d of 2 tasks finished (victim done %d)", s.finished, victim_done);
    pmc_outcome("order=%d", order);
}

int main(int argc, char** argv)
{
    static const char* focus = "F-addr: condition_variable handle + heap condition_variable_data (internal spinlock, queue, refcount) + user lock + each task's thread_data";
    using cv_t = pika::condition_variable;
    using cva_t = pika::condition_variable_any;
    static const pmc_spec specs[] = {
        {"cv_1w", cv_tasks<cv_t, pika::mutex, 1>, 1, 2, 0.2, 0.2, 1, focus, nullptr, nullptr},
        {"cv_2w", cv_tasks<cv_t, pika::mutex, 2>, 1, 2, 0.3, 0.3, 1, focus, nullptr, nullptr},
        {"cva_spin_2w", cv_tasks<cva_t, pika::concurrency::detail::spinlock, 2>, 1, 2, 0.15, 0.15, 1, "condition_variable_any with a spinlock as user lock", nullptr, nullptr},
        {"cv_timed_and_untimed", cv_timed_and_untimed<cv_t, pika::mutex>, 2, 3, 0.15, 0.1, 1, "one notify_one, an untimed and a timed (no predicate) waiter", nullptr, nullptr},
        {"cv_stop", cv_stop_token<0>, 1, 2, 0.1, 0.1, 1, "stop-token wait: cv, cv_data, user lock, stop_state", nullptr, nullptr},
        {"cv_stop_two_waiters", cv_stop_two_waiters, 1, 2, 0.1, 0.1, 1, "stop-token wait queued behind another waiter of the same condition variable", nullptr, nullptr},
        {"cv_interrupted_waiter", cv_interrupted_waiter<cv_t>, 1, 2, 0.08, 0.08, 1, "a waiter interrupted while blocked, then notify_one for the remaining waiter", nullptr, nullptr},
        {"cva_interrupted_waiter", cv_interrupted_waiter<cva_t>, 1, 2, 0.08, 0.08, 1, "the same with condition_variable_any", nullptr, nullptr},
        {"cv_stop_timed", cv_stop_token<1>, 1, 2, 0.1, 0.1, 1, "stop-token wait_for", nullptr, nullptr},
        {"cva_os_2w", cv_os<2>, 2, 3, 0.15, 0.15, 1, "condition_variable_any + std::mutex on plain OS threads; all pthread operations are points", nullptr, nullptr},
    };
    static const char* assumptions[] = {"sequentially consistent interleavings only", "2 worker threads", "timed waits: 50 ms virtual deadline; expiry before/after the notification is an explorer deviation (clock jump)"};
    pmc_config cfg{};
    cfg.property_id = "C07";
    cfg.rule = "waiter forms {wait loop, wait(pred), wait_for(pred), wait_until loop, stop-token wait} x notifier forms {notify_all after unlock, notify_one per waiter, notify_all under the lock} (data choices) x all schedules within the deviation bound";
    cfg.assumptions = assumptions;
    cfg.n_assumptions = 3;
    cfg.warmup = rt::warmup;
    cfg.quick_budget_s = 100;
    cfg.thorough_budget_s = 900;
    return pmc_main(argc, argv, &cfg, specs, sizeof specs / sizeof specs[0]);
}
