#!/usr/bin/env python3
"""C16 (seqx grid, one process per point): configuration precedence command line > environment /
PIKA_COMMANDLINE_OPTIONS > default, observed from inside the started runtime (C16_probe).
usage: c16_grid.py --tier quick|thorough --evidence <file> --part <name> [--known k1,k2]"""
import itertools, json, os, subprocess, sys, time
from concurrent.futures import ThreadPoolExecutor

V = os.path.dirname(os.path.dirname(os.path.abspath(__file__)))
PROBE = os.path.join(V, "build", "h" + os.environ.get("VERIF_BUILD_TAG", ""), "C16_probe")
NPU = os.cpu_count() or 16


def run(args, env_extra):
    env = {k: v for k, v in os.environ.items() if not k.startswith("PIKA_") and not k.startswith("HWLOC_")}
    env.update(env_extra)
    try:
        r = subprocess.run([PROBE] + args, env=env, capture_output=True, text=True, timeout=60)
    except subprocess.TimeoutExpired:
        return {"rc": "timeout", "out": None, "err": "timeout"}
    out = None
    for line in r.stdout.splitlines():
        if line.startswith('{"probe"'):
            try:
                out = json.loads(line)
            except Exception:
                pass
    return {"rc": r.returncode, "out": out, "err": (r.stderr or "")[-400:]}


# ---- settings: name -> (default as observed, how each source sets it, how it is observed) ------------
def sched_obs(o):
    d = o["scheduler"]
    for name, key in (("static-priority", "static_priority"), ("static", "static_queue"), ("local-priority-fifo", "local_priority"), ("local", "local_queue"), ("abp-priority", "abp")):
        pass
    return o["cfg:pika.scheduler"], d


SCHED_DESC = {"local-priority-lifo": "local_priority_queue_scheduler", "local-priority-fifo": "local_priority_queue_scheduler", "static": "static_queue_scheduler", "static-priority": "static_priority_queue_scheduler", "local": "local_queue_scheduler"}

SETTINGS = {
    # values: two distinct valid values per source so that the winner is identifiable
    "threads": {
        "values": {"cmdline": "3", "env": "2", "clo": "4", "ini": "1", "clo_ini": "5"},
        "cmdline": lambda v: ["--pika:threads=" + v], "env": lambda v: {"PIKA_THREADS": v},
        "clo": lambda v: "--pika:threads=" + v, "ini": lambda v: ["--pika:ini=pika.os_threads=" + v],
        "default": str(NPU),
        "observe": lambda o: str(o["os_threads"]),
        "consistent": lambda o: o["cfg:pika.os_threads"] == str(o["os_threads"]) and len(o["worker_masks"]) == o["os_threads"],
    },
    "scheduler": {
        "values": {"cmdline": "static", "env": "static-priority", "clo": "local", "ini": "static", "clo_ini": "local-priority-lifo"},
        "cmdline": lambda v: ["--pika:scheduler=" + v], "env": lambda v: {"PIKA_SCHEDULER": v},
        "clo": lambda v: "--pika:scheduler=" + v, "ini": lambda v: ["--pika:ini=pika.scheduler=" + v],
        "default": "local-priority-fifo",
        "observe": lambda o: o["cfg:pika.scheduler"],
        "consistent": lambda o: SCHED_DESC.get(o["cfg:pika.scheduler"], "?") in o["scheduler"],
    },
    "bind": {
        "values": {"cmdline": "compact", "env": "scatter", "clo": "none", "ini": "balanced", "clo_ini": "numa-balanced"},
        "cmdline": lambda v: ["--pika:bind=" + v], "env": lambda v: {"PIKA_BIND": v},
        "clo": lambda v: "--pika:bind=" + v, "ini": lambda v: ["--pika:ini=pika.bind=" + v],
        "default": "balanced",
        "observe": lambda o: o["cfg:pika.bind"],
        # 'none': workers unbound (mask with > 1 PU); otherwise exactly one PU each
        "consistent": lambda o: all((bin(m).count("1") > 1) == (o["cfg:pika.bind"] == "none") for m in o["worker_masks"]),
    },
    "stack": {
        "values": {"env": "0x30000", "ini": "0x40000", "clo_ini": "0x28000"},
        "env": lambda v: {"PIKA_SMALL_STACK_SIZE": v}, "ini": lambda v: ["--pika:ini=pika.stacks.small_size=" + v],
        "default": "0x20000",
        "observe": lambda o: hex(int(o["cfg:pika.stacks.small_size"], 0)),
        "consistent": lambda o: int(o["cfg:pika.stacks.small_size"], 0) == o["stack_small"],
    },
    # the other stack size classes (single-setting points only: they do not take part in the pair grid)
    "stack_medium": {
        "values": {"env": "0x50000", "ini": "0x60000"}, "pairs": False,
        "env": lambda v: {"PIKA_MEDIUM_STACK_SIZE": v}, "ini": lambda v: ["--pika:ini=pika.stacks.medium_size=" + v],
        "default": "0x20000",
        "observe": lambda o: hex(int(o["cfg:pika.stacks.medium_size"], 0)),
        "consistent": lambda o: int(o["cfg:pika.stacks.medium_size"], 0) == o["stack_medium"],
    },
    "stack_large": {
        "values": {"env": "0x300000", "ini": "0x400000"}, "pairs": False,
        "env": lambda v: {"PIKA_LARGE_STACK_SIZE": v}, "ini": lambda v: ["--pika:ini=pika.stacks.large_size=" + v],
        "default": "0x200000",
        "observe": lambda o: hex(int(o["cfg:pika.stacks.large_size"], 0)),
        "consistent": lambda o: int(o["cfg:pika.stacks.large_size"], 0) == o["stack_large"],
    },
    "stack_huge": {
        "values": {"env": "0x3000000", "ini": "0x1000000"}, "pairs": False,
        "env": lambda v: {"PIKA_HUGE_STACK_SIZE": v}, "ini": lambda v: ["--pika:ini=pika.stacks.huge_size=" + v],
        "default": "0x2000000",
        "observe": lambda o: hex(int(o["cfg:pika.stacks.huge_size"], 0)),
        "consistent": lambda o: int(o["cfg:pika.stacks.huge_size"], 0) == o["stack_huge"],
    },
    "mask": {
        "values": {"cmdline": "0x3f0", "env": "0xfc"},
        "cmdline": lambda v: ["--pika:process-mask=" + v], "env": lambda v: {"PIKA_PROCESS_MASK": v},
        "default": "",
        "observe": lambda o: o["cfg:pika.process_mask"],
        # every worker inside the mask; default thread count = cores in the mask
        "consistent": lambda o: (not o["cfg:pika.process_mask"]) or o["cfg:pika.bind"] == "none" or all(m & ~int(o["cfg:pika.process_mask"], 0) == 0 for m in o["worker_masks"]),
    },
    "free": {
        "values": {"ini": "hello", "clo_ini": "world"},
        "ini": lambda v: ["--pika:ini=verif.free_entry!=" + v],    # '!=' creates a new entry
        "default": "<unset>",
        "observe": lambda o: o["cfg:verif.free_entry"],
        "consistent": lambda o: True,
    },
}
RANK = {"cmdline": 3, "ini": 3, "env": 2, "clo": 2, "clo_ini": 2}   # ini is given on the command line; env and PIKA_COMMANDLINE_OPTIONS (dedicated option or --pika:ini entry: clo_ini) share a level


def build(point):
    """point: list of (setting, source). returns (args, env, expected: setting -> set of acceptable values)"""
    args, env, clo = [], {}, []
    by_setting = {}
    for elem in point:
        setting, source = elem[0], elem[1]
        s = SETTINGS[setting]
        v = elem[2] if len(elem) > 2 else s["values"][source]
        by_setting.setdefault(setting, []).append((source, v))
        if source == "cmdline" or source == "ini":
            args += s[source](v)
        elif source == "env":
            env.update(s["env"](v))
        elif source == "clo":
            clo.append(s["clo"](v))
        elif source == "clo_ini":
            clo.append(s["ini"](v)[0])
    if clo:
        env["PIKA_COMMANDLINE_OPTIONS"] = " ".join(clo)
    expected = {}
    for setting, s in SETTINGS.items():
        srcs = by_setting.get(setting, [])
        if not srcs:
            dflt = s["default"]
            if setting == "threads" and "mask" in by_setting:
                # default worker count = processing units (no SMT here: cores) inside the effective process mask
                top = max(RANK[src] for src, _ in by_setting["mask"])
                masks = {v for src, v in by_setting["mask"] if RANK[src] == top}
                expected[setting] = {str(bin(int(m, 0)).count("1")) for m in masks}
                continue
            expected[setting] = {dflt}
        else:
            # the statement orders dedicated command-line option > environment variable / PIKA_COMMANDLINE_OPTIONS
            # > default. It does not say how a generic --pika:ini=key=value entry relates to the dedicated
            # options of other sources: the ini value and the winner among the others are both accepted.
            # An ini entry inside PIKA_COMMANDLINE_OPTIONS (clo_ini) is an environment-level source: everything
            # given on the real command line overrides it.
            # Exception: against an environment-level --pika:ini entry (clo_ini) the command line must win
            # whatever its form - that is a PIKA_COMMANDLINE_OPTIONS entry for the very same key.
            ded = [(src, v) for src, v in srcs if src != "ini"]
            acc = {v for src, v in srcs if src == "ini"}
            if ded:
                top = max(RANK[src] for src, _ in ded)
                winners = {(src, v) for src, v in ded if RANK[src] == top}   # same level: no order stated
                if acc and top < RANK["ini"]:
                    winners = {(src, v) for src, v in winners if src != "clo_ini"}
                acc |= {v for _, v in winners}
            expected[setting] = acc
    return args, env, expected


def main():
    tier, evidence, part, known = "quick", None, "grid", set()
    a = sys.argv[1:]
    i = 0
    while i < len(a):
        if a[i] == "--tier": tier = a[i + 1]; i += 2
        elif a[i] == "--evidence": evidence = a[i + 1]; i += 2
        elif a[i] == "--part": part = a[i + 1]; i += 2
        elif a[i] == "--known": known = set(a[i + 1].split(",")); i += 2
        else: i += 1
    t0 = time.time()
    points = []
    # 1. every non-empty subset of sources per setting, other settings default
    for setting, s in SETTINGS.items():
        srcs = list(s["values"])
        for k in range(1, len(srcs) + 1):
            for sub in itertools.combinations(srcs, k):
                points.append([(setting, src) for src in sub])
    # 1b. the higher source names exactly the built-in default while a lower one names something else: the
    # explicitly given default must still win (a resolver that treats "equals the default" as "not given" loses it)
    for setting, s in SETTINGS.items():
        for high in ("cmdline", "ini"):
            if high not in s or not s["default"] or s["default"].startswith("<"): continue
            for low in ("env", "clo", "clo_ini"):
                if low in s["values"]:
                    points.append([(setting, high, s["default"]), (setting, low)])
    # 2. pairs of settings with all source pairs (thorough: triples too)
    names = [n for n in SETTINGS if SETTINGS[n].get("pairs", True)]
    for s1, s2 in itertools.combinations(names, 2):
        for a1 in SETTINGS[s1]["values"]:
            for a2 in SETTINGS[s2]["values"]:
                points.append([(s1, a1), (s2, a2)])
    if tier == "thorough":
        for s1, s2, s3 in itertools.combinations(names, 3):
            for a1 in SETTINGS[s1]["values"]:
                for a2 in SETTINGS[s2]["values"]:
                    for a3 in SETTINGS[s3]["values"]:
                        points.append([(s1, a1), (s2, a2), (s3, a3)])
    cases = []
    for pt in points:
        args, env, exp = build(pt)
        cases.append({"kind": "precedence", "point": pt, "args": args, "env": env, "expected": exp})
        if len(args) > 1 and len(cases) % 3 == 0:   # option order permutation for the command-line source
            cases.append({"kind": "precedence", "point": pt, "args": list(reversed(args)), "env": env, "expected": exp})
    # 2b. symbolic worker counts ('cores', 'all') from each source against numeric values from the others
    def exp_with(threads):
        e = {k: {v["default"]} for k, v in SETTINGS.items()}
        e["threads"] = set(threads)
        return e
    for kw in ("cores", "all"):
        for lower_env, lower_args, lowv in (({"PIKA_THREADS": "2"}, [], "2"), ({}, ["--pika:ini=pika.os_threads=1"], "1"), ({"PIKA_COMMANDLINE_OPTIONS": "--pika:scheduler=local-priority-fifo"}, [], None), ({}, [], None)):
            acc = {str(NPU)} | ({lowv} if lower_args else set())    # a --pika:ini entry: no order stated
            cases.append({"kind": "precedence", "point": [("threads", "cmdline:" + kw)], "args": ["--pika:threads=" + kw] + lower_args, "env": dict(lower_env), "expected": exp_with(acc)})
            cases.append({"kind": "precedence", "point": [("threads", "cmdline:" + kw)], "args": lower_args + ["--pika:threads=" + kw], "env": dict(lower_env), "expected": exp_with(acc)})
        cases.append({"kind": "precedence", "point": [("threads", "env:" + kw)], "args": [], "env": {"PIKA_THREADS": kw}, "expected": exp_with({str(NPU)})})
        cases.append({"kind": "precedence", "point": [("threads", "env:" + kw)], "args": ["--pika:threads=3"], "env": {"PIKA_THREADS": kw}, "expected": exp_with({"3"})})
    # 3. invalid values / unknown options must stop start-up with an error
    for bad in (["--pika:threads=0"], ["--pika:threads=%d" % (NPU + 1)], ["--pika:threads=abc"], ["--pika:scheduler=nonsense"], ["--pika:bind=nonsense"],
                ["--pika:foo=1"], ["--pika:process-mask=zz"], ["--pika:ini=pika.stacks.small_size=abc"],
                ["--pika:process-mask=" + hex((1 << NPU) | 1)], ["--pika:process-mask=" + hex(1 << (NPU + 3))],    # bits past the last PU (with / without a valid bit)
                ["--pika:ini=pika.stacks.medium_size=abc"], ["--pika:ini=pika.stacks.large_size=abc"], ["--pika:ini=pika.stacks.huge_size=lots"]):
        cases.append({"kind": "invalid", "args": bad, "env": {}})
    for badenv in ({"PIKA_PROCESS_MASK": hex((1 << NPU) | 1)}, {"PIKA_THREADS": "0"}, {"PIKA_THREADS": "abc"}, {"PIKA_SCHEDULER": "nonsense"}, {"PIKA_COMMANDLINE_OPTIONS": "--pika:foo=1"}):
        cases.append({"kind": "invalid", "args": [], "env": badenv})
    # 4. non-pika arguments reach the application: positional arguments in order, application options as a multiset
    for extra in (["alpha", "beta"], ["alpha", "--app-opt=7", "beta"], ["--app-flag", "x", "--pika:threads=2", "y"], ["a b", "c"], []):
        cases.append({"kind": "argv", "args": extra, "env": {}})

    with ThreadPoolExecutor(16) as ex:
        results = list(ex.map(lambda c: run(c["args"], c["env"]), cases))

    violations, known_hits, states = [], {}, set()

    def fail(idx, ident, msg):
        key = "grid/" + ident
        c = cases[idx]
        desc = f"args={c['args']} env={c['env']}"
        if key in known:
            known_hits[key] = known_hits.get(key, 0) + 1
        else:
            violations.append((key, msg, desc))

    for idx, (c, r) in enumerate(zip(cases, results)):
        o = r["out"]
        if c["kind"] == "precedence":
            uses_clo_conflict = "PIKA_COMMANDLINE_OPTIONS" in c["env"] and any(
                opt.split("=")[0] in " ".join(c["args"]) for opt in c["env"]["PIKA_COMMANDLINE_OPTIONS"].split())
            if o is None:
                if uses_clo_conflict:
                    fail(idx, "cmdline-vs-commandline-options-env", f"start-up failed (rc={r['rc']}): {r['err'][-200:]!r}")
                else:
                    fail(idx, "startup-failed", f"valid configuration did not start (rc={r['rc']}): {r['err'][-200:]!r}")
                continue
            for setting, s in SETTINGS.items():
                got = s["observe"](o)
                if got not in c["expected"][setting]:
                    srcs_here = {e[1] for e in c["point"] if e[0] == setting}
                    ident = "precedence-" + setting
                    if {"ini", "clo_ini"} <= srcs_here and got == s["values"]["clo_ini"]:
                        ident = "cmdline-ini-vs-commandline-options-ini-" + setting    # both are --pika:ini entries, the one from the environment string wins (keyed per setting: a known finding for one setting must not hide another)
                    fail(idx, ident, f"{setting}: the runtime uses {got!r}, precedence denotes {sorted(c['expected'][setting])}")
                elif not s["consistent"](o):
                    fail(idx, "not-in-effect-" + setting, f"{setting}: resolved value {got!r} is not what the running runtime uses ({ {k: o[k] for k in ('os_threads', 'scheduler', 'stack_small', 'stack_medium', 'stack_large', 'stack_huge', 'worker_masks')} })")
            states.add(json.dumps({k: sorted(v) for k, v in c["expected"].items()}, sort_keys=True))
        elif c["kind"] == "invalid":
            if o is not None or r["rc"] == 0:
                fail(idx, "invalid-accepted", f"invalid/unknown option did not stop start-up (rc={r['rc']}, probe ran: {o is not None})")
            elif not r["err"].strip():
                fail(idx, "invalid-no-message", "start-up stopped without any message")
            states.add("invalid:" + " ".join(c["args"]) + json.dumps(c["env"]))
        else:
            if o is None:
                fail(idx, "startup-failed", f"did not start: {r['err'][-200:]!r}")
                continue
            sent = [x for x in c["args"] if not x.startswith("--pika:")]
            got = o["argv"][1:]
            pos_sent = [x for x in sent if not x.startswith("--")]
            pos_got = [x for x in got if not x.startswith("--")]
            if sorted(sent) != sorted(got) or pos_sent != pos_got:
                fail(idx, "argv-changed", f"application received {got}, was given {sent}")
            states.add("argv:" + " ".join(c["args"]))

    wall = time.time() - t0
    rc = 0
    if os.environ.get("C16_DEBUG"):
        from collections import Counter
        for k, n in Counter(v[0] for v in violations).items():
            ex1 = next(v for v in violations if v[0] == k)
            print(f"  {n:3d} x {k}: {ex1[1][:230]} || {ex1[2][:200]}", file=sys.stderr)
    for key, msg, desc in violations[:1]:
        os.makedirs(os.path.join(V, "replays"), exist_ok=True)
        path = os.path.join(V, "replays", f"C16-{key.replace('/', '-')}-{abs(hash(desc)) % 10**10}.json")
        json.dump({"property": "C16", "spec": "grid", "key": key, "history": desc, "msg": msg}, open(path, "w"), indent=1)
        print(f"RAWVIOLATION property=C16 key={key} replay={path} msg={msg} || case: {desc}")
        rc = 1
    print(f"seqx[C16/grid] cases={len(cases)} distinct_expectations={len(states)} violations={len(violations)} known_hits={known_hits} wall={wall:.1f}s", file=sys.stderr)
    if evidence:
        samples = [f"{c['kind']}: args={c['args']} env={c['env']}" for c in cases[:: max(1, len(cases) // 6)]][:6]
        json.dump({
            "part": part, "property_id": "C16", "tier": tier, "engine": "seqx",
            "executions": len(cases), "transitions": len(cases), "distinct_traces": len(states), "distinct_nontrivial": len(states),
            "exhaustive": rc == 0, "rule": "grid: every non-empty subset of sources per setting; all source pairs for every pair of settings (thorough: triples); option-order permutations; invalid values and unknown options per source; non-pika arguments",
            "violation": rc != 0, "exit": rc, "wall_s": round(wall, 2),
            "assumptions": ["one process per grid point; values observed from inside the started runtime", "where the statement gives no order (environment variable vs PIKA_COMMANDLINE_OPTIONS; dedicated option vs --pika:ini on one command line) either candidate is accepted"],
            "samples": samples, "specs": [{"name": "grid", "focus": "precedence grid", "executions": len(cases), "states": len(states), "transitions": len(cases), "wall_s": round(wall, 2), "samples": []}],
            "known_findings_matched_total": known_hits,
        }, open(evidence, "w"), indent=1)
    return rc


if __name__ == "__main__":
    sys.exit(main())
