// C14 (part 1, seqx): sequential histories of stop_source / stop_token / stop_callback operations,
// breadth-first to a depth bound with de-duplication on the reference model's canonical state; every
// transition is executed on fresh real objects (history replayed) and every observable of the
// statement is compared with the reference model after every step.
#include "seqx.h"
#include <pika/init.hpp>
#include <pika/execution.hpp>
#include <pika/synchronization/stop_token.hpp>
#include <deque>
#include <map>
#include <memory>
#include <optional>
#include <sstream>

enum Kind { SRC_NEW, SRC_RESET, SRC_COPYASSIGN, SRC_MOVEASSIGN, SRC_COPYCONS, SRC_SWAP, TOK_GET, TOK_COPY, TOK_CLEAR, REQ_STOP, CB_REG, CB_DEL, TOK_SWAP, TOK_MOVE, SRC_MOVECONS, SRC_NOSTATE, CB_REG_RVALUE };
struct Op { int kind, a, b; };
static std::string opstr(Op o)
{
    static const char* n[] = {"src_new", "src_reset", "src_copy_assign", "src_move_assign", "src_copy_construct", "src_swap", "tok_get", "tok_copy", "tok_clear", "request_stop", "cb_register", "cb_destroy", "tok_swap", "tok_move_assign", "src_move_construct", "src_new_nostopstate", "cb_register_from_rvalue_token"};
    char b[64];
    snprintf(b, sizeof b, "%s(%d,%d)", n[o.kind], o.a, o.b);
    return b;
}
static std::vector<Op> alphabet()
{
    std::vector<Op> v;
    for (int i = 0; i < 2; ++i) v.push_back({SRC_NEW, i, 0});
    for (int i = 0; i < 2; ++i) v.push_back({SRC_RESET, i, 0});
    for (int i = 0; i < 2; ++i) for (int j = 0; j < 2; ++j) v.push_back({SRC_COPYASSIGN, i, j});
    for (int i = 0; i < 2; ++i) v.push_back({SRC_MOVEASSIGN, i, 1 - i});
    for (int i = 0; i < 2; ++i) v.push_back({SRC_COPYCONS, i, 1 - i});
    v.push_back({SRC_SWAP, 0, 1});
    for (int k = 0; k < 2; ++k) for (int i = 0; i < 2; ++i) v.push_back({TOK_GET, k, i});
    for (int k = 0; k < 2; ++k) v.push_back({TOK_COPY, k, 1 - k});
    for (int k = 0; k < 2; ++k) v.push_back({TOK_CLEAR, k, 0});
    for (int i = 0; i < 2; ++i) v.push_back({REQ_STOP, i, 0});
    for (int c = 0; c < 2; ++c) for (int k = 0; k < 2; ++k) v.push_back({CB_REG, c, k});
    for (int c = 0; c < 2; ++c) v.push_back({CB_DEL, c, 0});
    // handle operations that only move references around: swap (member and free function), move assignment of a
    // token, move construction of a source, a source without state, a callback constructed from an rvalue token
    v.push_back({TOK_SWAP, 0, 1});
    for (int k = 0; k < 2; ++k) v.push_back({TOK_MOVE, k, 1 - k});
    for (int i = 0; i < 2; ++i) v.push_back({SRC_MOVECONS, i, 1 - i});
    v.push_back({SRC_NOSTATE, 1, 0});
    for (int c = 0; c < 2; ++c) v.push_back({CB_REG_RVALUE, c, 1});
    return v;
}

// ---- reference model ----------------------------------------------------------------------------
struct RState { int nsrc = 0; bool requested = false; };
struct Ref
{
    std::map<int, RState> st;
    int next_id = 0;
    bool src_present[2] = {false, false};
    int src[2] = {-1, -1};
    int tok[2] = {-1, -1};
    bool cb_present[2] = {false, false};
    int cb_on[2] = {-1, -1};    // state the callback is registered on (-1: not registered)
    int cb_runs[2] = {0, 0};
    int last_result = -1;       // result of request_stop

    bool enabled(Op o) const
    {
        switch (o.kind)
        {
        case SRC_NEW: return !src_present[o.a];
        case SRC_RESET: return src_present[o.a];
        case SRC_COPYASSIGN: return src_present[o.a] && src_present[o.b];
        case SRC_MOVEASSIGN: return src_present[o.a] && src_present[o.b];
        case SRC_COPYCONS: return !src_present[o.a] && src_present[o.b];
        case SRC_SWAP: return src_present[0] && src_present[1];
        case SRC_MOVECONS: return !src_present[o.a] && src_present[o.b];
        case SRC_NOSTATE: return !src_present[o.a];
        case CB_REG_RVALUE: return !cb_present[o.a];
        case TOK_GET: return src_present[o.b];
        case REQ_STOP: return src_present[o.a];
        case CB_REG: return !cb_present[o.a];
        case CB_DEL: return cb_present[o.a];
        default: return true;
        }
    }
    void drop_src(int s) { if (s >= 0) --st[s].nsrc; }
    void apply(Op o)
    {
        last_result = -1;
        switch (o.kind)
        {
        case SRC_NEW: src_present[o.a] = true; src[o.a] = next_id; st[next_id].nsrc = 1; ++next_id; break;
        case SRC_RESET: drop_src(src[o.a]); src[o.a] = -1; src_present[o.a] = false; break;
        case SRC_COPYASSIGN:
            if (o.a != o.b) { drop_src(src[o.a]); src[o.a] = src[o.b]; if (src[o.a] >= 0) ++st[src[o.a]].nsrc; }
            break;    // self-assignment: no change
        case SRC_MOVEASSIGN: drop_src(src[o.a]); src[o.a] = src[o.b]; src[o.b] = -1; break;
        case SRC_COPYCONS: src_present[o.a] = true; src[o.a] = src[o.b]; if (src[o.a] >= 0) ++st[src[o.a]].nsrc; break;
        case SRC_SWAP: std::swap(src[0], src[1]); break;
        case SRC_MOVECONS: src_present[o.a] = true; src[o.a] = src[o.b]; src[o.b] = -1; break;
        case SRC_NOSTATE: src_present[o.a] = true; src[o.a] = -1; break;
        case TOK_SWAP: std::swap(tok[0], tok[1]); break;
        case TOK_MOVE: tok[o.a] = tok[o.b]; tok[o.b] = -1; break;
        case TOK_GET: tok[o.a] = src[o.b]; break;    // stop_possible() of a source == has state
        case TOK_COPY: tok[o.a] = tok[o.b]; break;
        case TOK_CLEAR: tok[o.a] = -1; break;
        case REQ_STOP:
        {
            int s = src[o.a];
            bool r = s >= 0 && !st[s].requested;
            last_result = r;
            if (r)
            {
                st[s].requested = true;
                for (int c = 0; c < 2; ++c)
                    if (cb_present[c] && cb_on[c] == s) { ++cb_runs[c]; cb_on[c] = -1; }
            }
            break;
        }
        case CB_REG:
        case CB_REG_RVALUE:
        {
            cb_present[o.a] = true;
            cb_runs[o.a] = 0;
            int s = tok[o.b];
            if (s >= 0 && st[s].requested) { cb_runs[o.a] = 1; cb_on[o.a] = -1; }
            else if (s >= 0 && st[s].nsrc > 0) cb_on[o.a] = s;
            else cb_on[o.a] = -1;
            if (o.kind == CB_REG_RVALUE) tok[o.b] = -1;    // the token was moved into the callback
            break;
        }
        case CB_DEL: cb_present[o.a] = false; cb_on[o.a] = -1; cb_runs[o.a] = 0; break;
        }
    }
    bool tok_possible(int k) const { int s = tok[k]; return s >= 0 && (st.at(s).requested || st.at(s).nsrc > 0); }
    bool tok_requested(int k) const { int s = tok[k]; return s >= 0 && st.at(s).requested; }
    std::string observe() const
    {
        std::ostringstream o;
        for (int i = 0; i < 2; ++i)
            if (src_present[i]) o << "S" << i << ":" << (src[i] >= 0) << (src[i] >= 0 && st.at(src[i]).requested) << " ";
        for (int k = 0; k < 2; ++k) o << "T" << k << ":" << tok_possible(k) << tok_requested(k) << " ";
        o << "eq:" << (tok[0] == tok[1]) << " ";
        for (int c = 0; c < 2; ++c) if (cb_present[c]) o << "C" << c << ":" << cb_runs[c] << " ";
        o << "r:" << last_result;
        return o.str();
    }
    std::string canon() const
    {
        // rename state ids in order of first appearance; drop states nobody refers to
        std::map<int, int> ren;
        auto r = [&](int s) { if (s < 0) return -1; auto it = ren.find(s); if (it == ren.end()) { int n = (int) ren.size(); ren[s] = n; return n; } return it->second; };
        std::ostringstream o;
        for (int i = 0; i < 2; ++i) o << (src_present[i] ? r(src[i]) : -2) << ",";
        for (int k = 0; k < 2; ++k) o << r(tok[k]) << ",";
        for (int c = 0; c < 2; ++c) o << (cb_present[c] ? r(cb_on[c]) : -2) << ":" << (cb_present[c] ? cb_runs[c] : 0) << ",";
        for (auto& kv : ren) o << "|" << kv.second << ":" << st.at(kv.first).nsrc << st.at(kv.first).requested;
        return o.str();
    }
};

// ---- the real objects -----------------------------------------------------------------------------
struct Real
{
    struct F { int* runs; void operator()() const noexcept { ++*runs; } };
    std::optional<pika::stop_source> src[2];
    pika::stop_token tok[2];
    int runs[2] = {0, 0};
    std::unique_ptr<pika::stop_callback<F>> cb[2];
    int last_result = -1;
    void apply(Op o)
    {
        last_result = -1;
        switch (o.kind)
        {
        case SRC_NEW: src[o.a].emplace(); break;
        case SRC_RESET: src[o.a].reset(); break;
        case SRC_COPYASSIGN: *src[o.a] = *src[o.b]; break;
        case SRC_MOVEASSIGN: *src[o.a] = std::move(*src[o.b]); break;
        case SRC_COPYCONS: src[o.a].emplace(*src[o.b]); break;
        case SRC_SWAP: src[0]->swap(*src[1]); break;
        case SRC_MOVECONS: src[o.a].emplace(std::move(*src[o.b])); break;
        case SRC_NOSTATE: src[o.a].emplace(pika::nostopstate); break;
        case TOK_SWAP: { using std::swap; swap(tok[0], tok[1]); break; }
        case TOK_MOVE: tok[o.a] = std::move(tok[o.b]); break;
        case CB_REG_RVALUE: runs[o.a] = 0; cb[o.a] = std::make_unique<pika::stop_callback<F>>(std::move(tok[o.b]), F{&runs[o.a]}); break;
        case TOK_GET: tok[o.a] = src[o.b]->get_token(); break;
        case TOK_COPY: tok[o.a] = tok[o.b]; break;
        case TOK_CLEAR: tok[o.a] = pika::stop_token(); break;
        case REQ_STOP: last_result = src[o.a]->request_stop(); break;
        case CB_REG: runs[o.a] = 0; cb[o.a] = std::make_unique<pika::stop_callback<F>>(tok[o.b], F{&runs[o.a]}); break;
        case CB_DEL: cb[o.a].reset(); runs[o.a] = 0; break;
        }
    }
    std::string observe() const
    {
        std::ostringstream o;
        for (int i = 0; i < 2; ++i)
            if (src[i]) o << "S" << i << ":" << src[i]->stop_possible() << src[i]->stop_requested() << " ";
        for (int k = 0; k < 2; ++k) o << "T" << k << ":" << tok[k].stop_possible() << tok[k].stop_requested() << " ";
        o << "eq:" << (tok[0] == tok[1]) << " ";
        for (int c = 0; c < 2; ++c) if (cb[c]) o << "C" << c << ":" << runs[c] << " ";
        o << "r:" << last_result;
        return o.str();
    }
};

static void bfs(int depth)
{
    auto alpha = alphabet();
    std::set<std::string> seen;
    std::deque<std::vector<Op>> frontier;
    frontier.push_back({});
    seen.insert(Ref().canon());
    seqx::g->states += 1;
    while (!frontier.empty())
    {
        std::vector<Op> hist = std::move(frontier.front());
        frontier.pop_front();
        if ((int) hist.size() >= depth) continue;
        Ref base;
        for (auto o : hist) base.apply(o);
        for (auto op : alpha)
        {
            if (!base.enabled(op)) continue;
            std::string hs;
            for (auto o : hist) hs += opstr(o) + " ";
            hs += opstr(op);
            seqx::begin_case("%s", hs.c_str());
            ++seqx::g->transitions;
            // fresh real objects, history replayed, every step compared; then a probe suffix (histories
            // are merged on the reference state, a hidden counter gone wrong must show in the future):
            // probe 0 requests stop through every live source, probe 1 drops every source (stop_possible
            // of the remaining tokens must follow)
            for (int probe_kind = 0; probe_kind < 2; ++probe_kind)
            {
                Real real;
                Ref ref;
                std::vector<Op> all = hist;
                all.push_back(op);
                for (size_t i = 0; i < all.size(); ++i)
                {
                    real.apply(all[i]);
                    ref.apply(all[i]);
                    if (probe_kind) continue;    // compared step by step in the first replay
                    std::string a = real.observe(), b = ref.observe();
                    SEQX_CHECK(a == b, "model-mismatch", "after step %zu (%s): real [%s] != reference [%s]  (legend: S=source possible/requested, T=token possible/requested, C=callback runs, r=request_stop result)",
                        i + 1, opstr(all[i]).c_str(), a.c_str(), b.c_str());
                }
                for (int i = 0; i < 2; ++i)
                {
                    Op probe{probe_kind == 0 ? REQ_STOP : SRC_RESET, i, 0};
                    if (!ref.enabled(probe)) continue;
                    real.apply(probe);
                    ref.apply(probe);
                    std::string a = real.observe(), b = ref.observe();
                    SEQX_CHECK(a == b, "model-mismatch", "probe %s after the history: real [%s] != reference [%s]", opstr(probe).c_str(), a.c_str(), b.c_str());
                }
            }
            Ref nxt = base;
            nxt.apply(op);
            std::string key = nxt.canon();
            if (seen.insert(key).second)
            {
                ++seqx::g->states;
                std::vector<Op> nh = hist;
                nh.push_back(op);
                if ((int) nh.size() > seqx::g->max_depth) seqx::g->max_depth = (int) nh.size();
                frontier.push_back(std::move(nh));
            }
        }
    }
}

static void on_os_thread(bool thorough) { bfs(thorough ? 14 : 10); }
static void on_pika_task(bool thorough)
{
    static const char* argv[] = {"C14_stop_seq", nullptr};
    pika::init_params p;
    p.cfg = {"pika.os_threads=2", "pika.bind=none"};
    pika::start(nullptr, 1, argv, p);
    namespace ex = pika::execution::experimental;
    pika::this_thread::experimental::sync_wait(ex::schedule(ex::thread_pool_scheduler{}) | ex::then([&] {
        try { bfs(thorough ? 13 : 9); }
        catch (seqx::violation_exception&) {}
    }));
    pika::finalize();
    pika::stop();
}

int main(int argc, char** argv)
{
    auto o = seqx::parse(argc, argv, "C14");
    o.hang_timeout_s = 15;
    std::vector<seqx::spec> specs = {
        {"seq_os_thread", on_os_thread, "histories over 2 sources, 2 tokens, 2 callbacks on a plain OS thread"},
        {"seq_pika_task", on_pika_task, "the same histories executed inside a pika task (the signalling-thread test uses the pika thread id)"},
    };
    return seqx::main_loop(o, specs,
        "BFS over operation histories {source new/reset/copy-assign/move-assign/copy-construct/move-construct/swap/nostopstate, get_token, token copy/move/swap/clear, callback from an rvalue token, request_stop, callback register/destroy} to the depth bound, de-duplicated on the reference model's canonical state; every transition replayed on fresh real objects and compared step by step",
        {"sequential histories only (races are covered by the pmc part)", "depth bound 10 (OS thread) / 9 (pika task) in the quick tier, 14 / 13 in the thorough tier (the de-duplicated search runs out of new reference states before that); two probe suffixes per transition (request stop through every source; drop every source)"});
}
