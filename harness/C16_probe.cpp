// C16 probe: a minimal pika program that prints, from inside the started runtime, the values the
// runtime actually uses, plus the argv its entry function received.  Driven by c16_grid.py.
#include <pika/init.hpp>
#include <pika/execution.hpp>
#include <pika/runtime/config_entry.hpp>
#include <pika/runtime/thread_pool_helpers.hpp>
#include <pika/runtime.hpp>
#include <pika/threading_base/thread_data.hpp>
#include <pika/threading_base/scheduler_base.hpp>
#include <sched.h>
#include <atomic>
#include <cstdio>
#include <string>

static std::string esc(std::string const& s)
{
    std::string o;
    for (char c : s) { if (c == '"' || c == '\\') o += '\\'; o += c; }
    return o;
}
int pika_main(int argc, char** argv)
{
    namespace ex = pika::execution::experimental;
    auto& pool = pika::resource::get_thread_pool("default");
    std::size_t n = pool.get_os_thread_count();
    // affinity of every worker (pinned probe tasks)
    std::vector<unsigned long> masks(n, 0);
    std::atomic<std::size_t> started{0};
    {
        std::vector<ex::unique_any_sender<>> tasks;
        for (std::size_t k = 0; k < n; ++k)
            tasks.emplace_back(ex::schedule(ex::thread_pool_scheduler{&pool}) | ex::then([&] {
                cpu_set_t cs;
                CPU_ZERO(&cs);
                sched_getaffinity(0, sizeof cs, &cs);
                unsigned long m = 0;
                for (int b = 0; b < 64; ++b) if (CPU_ISSET(b, &cs)) m |= 1ul << b;
                std::size_t l = pika::get_local_worker_thread_num();
                if (l < masks.size()) masks[l] = m;
                ++started;
                while (started.load() < n) {}
            }));
        pika::this_thread::experimental::sync_wait(ex::when_all_vector(std::move(tasks)));
    }
    std::ptrdiff_t small_stack = 0;
    pika::this_thread::experimental::sync_wait(ex::schedule(ex::thread_pool_scheduler{&pool}) | ex::then([&] { small_stack = pika::threads::detail::get_self_stacksize(); }));
    std::ptrdiff_t cls_stack[3] = {0, 0, 0};
    {
        pika::execution::thread_stacksize const cls[3] = {pika::execution::thread_stacksize::medium, pika::execution::thread_stacksize::large, pika::execution::thread_stacksize::huge};
        for (int i = 0; i < 3; ++i)
            pika::this_thread::experimental::sync_wait(ex::schedule(ex::with_stacksize(ex::thread_pool_scheduler{&pool}, cls[i])) | ex::then([&, i] { cls_stack[i] = pika::threads::detail::get_self_stacksize(); }));
    }
    std::printf("{\"probe\": 1, \"os_threads\": %zu, \"scheduler\": \"%s\", \"stack_small\": %td, \"stack_medium\": %td, \"stack_large\": %td, \"stack_huge\": %td, ", n,
        esc(pool.get_scheduler()->get_description()).c_str(), small_stack, cls_stack[0], cls_stack[1], cls_stack[2]);
    for (const char* key : {"pika.os_threads", "pika.scheduler", "pika.bind", "pika.stacks.small_size", "pika.stacks.medium_size", "pika.stacks.large_size", "pika.stacks.huge_size", "pika.process_mask", "verif.free_entry", "pika.cores"})
        std::printf("\"cfg:%s\": \"%s\", ", key, esc(pika::detail::get_config_entry(key, std::string("<unset>"))).c_str());
    std::printf("\"worker_masks\": [");
    for (std::size_t i = 0; i < n; ++i) std::printf("%s%lu", i ? ", " : "", masks[i]);
    std::printf("], \"argv\": [");
    for (int i = 0; i < argc; ++i) std::printf("%s\"%s\"", i ? ", " : "", esc(argv[i]).c_str());
    std::printf("]}\n");
    std::fflush(stdout);
    pika::finalize();
    return 0;
}
int main(int argc, char** argv)
{
    // the application's own options (must reach pika_main unchanged, as must positional arguments)
    pika::program_options::options_description desc("probe options");
    desc.add_options()("app-opt", pika::program_options::value<std::string>(), "an application option")("app-flag", "an application flag");
    pika::init_params p;
    p.desc_cmdline = desc;
    return pika::init(pika_main, argc, argv, p);
}
