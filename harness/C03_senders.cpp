// C03: sender adaptors deliver exactly one, correct completion signal.  pmc-os: plain OS threads,
// header-only adaptors, instrumented leaves (value / error / stopped, inline or deferred), a manual
// scheduler, recording receivers, payload + allocation ledgers.
#include "pmc.h"
#include <pika/execution.hpp>
#include <pika/execution_base/any_sender.hpp>
#include <exception>
#include <memory>
#include <thread>
#include <tuple>
#include <vector>
#include <cstring>
#include <cstdlib>
#include <malloc.h>

namespace ex = pika::execution::experimental;
namespace tt = pika::this_thread::experimental;

// ---- allocation ledger: live block count + poisoned quarantine (use-after-free shows up) ----------
static bool g_quarantine = false;
static long g_live_blocks = 0;
struct QHdr { size_t size; unsigned long magic; };
static QHdr* g_q[1 << 14];
static int g_nq = 0;
static void* q_alloc(size_t n)
{
    QHdr* h = (QHdr*) malloc(sizeof(QHdr) + n);
    if (!h) abort();
    h->size = n;
    h->magic = 0xA110CA7EDul;
    if (g_quarantine) ++g_live_blocks;
    return h + 1;
}
static void q_free(void* p)
{
    if (!p) return;
    QHdr* h = (QHdr*) p - 1;
    if (h->magic == 0xDEADF4EEul) pmc_fail("double-free", "block of %zu bytes freed twice", h->size);
    if (h->magic != 0xA110CA7EDul) { return; }    // not ours (allocated before the ledger existed)
    if (!g_quarantine) { h->magic = 0; free(h); return; }
    h->magic = 0xDEADF4EEul;
    memset(p, 0xDD, h->size);
    --g_live_blocks;
    if (g_nq < (1 << 14)) g_q[g_nq++] = h;
}
void* operator new(size_t n) { return q_alloc(n); }
void* operator new[](size_t n) { return q_alloc(n); }
void operator delete(void* p) noexcept { q_free(p); }
void operator delete[](void* p) noexcept { q_free(p); }
void operator delete(void* p, size_t) noexcept { q_free(p); }
void operator delete[](void* p, size_t) noexcept { q_free(p); }
static void check_quarantine()
{
    for (int i = 0; i < g_nq; ++i)
    {
        unsigned char* p = (unsigned char*) (g_q[i] + 1);
        for (size_t k = 0; k < g_q[i]->size; ++k)
            if (p[k] != 0xDD) pmc_fail("write-after-free", "a freed block of %zu bytes was written to at offset %zu", g_q[i]->size, k);
    }
}

// ---- payload ledger ---------------------------------------------------------------------------------
struct Payload
{
    static inline int live = 0, constructed = 0, destroyed = 0;
    int tag;
    unsigned magic = 0x600D;
    explicit Payload(int t = 0) : tag(t) { ++live; ++constructed; }
    // copy fuse: when armed (> 0) the fuse-th copy construction from now on throws a TaggedError-like exception
    // (a value type whose copy constructor can fail is user code; where an adaptor copies a value, the failure
    // must arrive as an error completion)
    static inline int copy_fuse = 0, copy_thrown = 0;
    struct CopyFailed { int tag = -3; };
    Payload(Payload const& o) : tag(o.tag)
    {
        o.check();
        if (copy_fuse > 0 && --copy_fuse == 0) { copy_thrown = 1; throw CopyFailed{}; }
        ++live; ++constructed;
    }
    Payload(Payload&& o) noexcept : tag(o.tag) { o.check(); ++live; ++constructed; }
    Payload& operator=(Payload const& o) { o.check(); tag = o.tag; return *this; }
    Payload& operator=(Payload&& o) noexcept { o.check(); tag = o.tag; return *this; }
    void check() const { if (magic != 0x600D) pmc_fail("payload-use-after-destroy", "a payload object (tag %d) was used after its destruction", tag); }
    ~Payload() { if (magic != 0x600D) pmc_fail("payload-double-destroy", "payload destroyed twice"); magic = 0xDEAD; --live; ++destroyed; }
};
struct TaggedError { int tag; Payload p{}; };    // the payload member puts every error object into the lifetime ledger

// an error sent by value (not as exception_ptr): tracked like a payload; constructing it takes time (a
// scheduling point inside the copy/move constructor), so that two threads storing an error into the same
// operation state at once become visible as an object constructed on top of a live one
struct ErrObj
{
    static inline int live = 0, constructed = 0, destroyed = 0;
    int tag;
    unsigned magic;
    explicit ErrObj(int t) : tag(t), magic(0xE770) { ++live; ++constructed; }
    ErrObj(ErrObj const& o) : tag(o.tag) { pmc_point("error-object-copy"); magic = 0xE770; ++live; ++constructed; }
    ErrObj(ErrObj&& o) noexcept : tag(o.tag) { pmc_point("error-object-move"); magic = 0xE770; ++live; ++constructed; }
    ErrObj& operator=(ErrObj const& o) { tag = o.tag; return *this; }
    ErrObj& operator=(ErrObj&& o) noexcept { tag = o.tag; return *this; }
    ~ErrObj() { if (magic != 0xE770) pmc_fail("payload-double-destroy", "error object destroyed twice"); magic = 0xDEAD; --live; ++destroyed; }
};
enum Ch { VAL = 0, ERR = 1, STOP = 2 };
static const char* chn[] = {"value", "error", "stopped"};

// ---- recording receiver -----------------------------------------------------------------------------
struct Outcome
{
    int nv = 0, ne = 0, ns = 0;
    int tag = -1, tag2 = -1;
    int alive = 1;          // cleared by the harness right before it destroys the operation state
    int total() const { return nv + ne + ns; }
    int channel() const { return nv ? VAL : ne ? ERR : STOP; }
};
static int tag_of(Payload const& p) { p.check(); return p.tag; }
static int tag_of(int v) { return v; }
template <typename... Ts> static int tag_of(std::tuple<Ts...> const& t) { return tag_of(std::get<0>(t)); }
static int tag_of(std::vector<Payload> const& v) { int s = 0; for (auto const& p : v) s += tag_of(p); return s; }
static int tag_of_error(std::exception_ptr const& e)
{
    try { std::rethrow_exception(e); }
    catch (TaggedError const& t) { return t.tag; }
    catch (Payload::CopyFailed const& c) { return c.tag; }
    catch (...) { return -2; }
}
struct Rec
{
    PIKA_STDEXEC_RECEIVER_CONCEPT
    Outcome* out;
    void signalled() const
    {
        if (!out->alive) pmc_fail("signal-after-destroy", "a completion signal arrived after the operation state was destroyed");
        if (out->total() != 0) pmc_fail("signalled-twice", "second completion signal on the same receiver (value %d, error %d, stopped %d so far)", out->nv, out->ne, out->ns);
        pmc_progress();
    }
    void set_value() && noexcept { signalled(); out->tag = 0; ++out->nv; }
    template <typename T>
    void set_value(T&& v) && noexcept { signalled(); out->tag = tag_of(v); ++out->nv; }
    template <typename T, typename U>
    void set_value(T&& v, U&& u) && noexcept { signalled(); out->tag = tag_of(v); out->tag2 = tag_of(u); ++out->nv; }
    void set_error(std::exception_ptr e) && noexcept { signalled(); out->tag = tag_of_error(e); ++out->ne; }
    void set_error(ErrObj e) && noexcept { signalled(); out->tag = e.tag; ++out->ne; }
    void set_stopped() && noexcept { signalled(); ++out->ns; }
    constexpr ex::empty_env get_env() const& noexcept { return {}; }
};

// ---- deferred completions ---------------------------------------------------------------------------
struct Pending { void (*fire)(void*); void* op; };
static Pending g_pending[16];
static int g_npending = 0, g_fired = 0;
static int g_expected_deferred = 0;

// ---- leaf sender: completes with Payload(tag) / TaggedError(tag) / stopped, inline or deferred ------
template <bool TUPLE>
struct LeafT
{
    PIKA_STDEXEC_SENDER_CONCEPT
    int ch, deferred, tag;
    using vt = std::conditional_t<TUPLE, std::tuple<Payload, Payload>, Payload>;
    template <template <typename...> class Tuple, template <typename...> class Variant>
    using value_types = Variant<Tuple<vt>>;
    template <template <typename...> class Variant>
    using error_types = Variant<std::exception_ptr>;
    static constexpr bool sends_done = true;
    using completion_signatures = ex::completion_signatures<ex::set_value_t(vt), ex::set_error_t(std::exception_ptr), ex::set_stopped_t()>;

    template <typename R>
    struct operation_state
    {
        std::decay_t<R> r;
        int ch, deferred, tag;
        int started = 0, completed = 0;
        unsigned magic = 0x0951;
        operation_state(R&& rr, int c, int d, int t) : r(std::forward<R>(rr)), ch(c), deferred(d), tag(t) {}
        operation_state(operation_state&&) = delete;
        ~operation_state()
        {
            if (started && !completed) pmc_fail("opstate-destroyed-before-completion", "a started leaf operation state (tag %d) was destroyed before it completed", tag);
            magic = 0xDEAD;
        }
        void complete() noexcept
        {
            if (magic != 0x0951) pmc_fail("leaf-use-after-destroy", "leaf operation state used after destruction");
            completed = 1;
            if (ch == VAL)
            {
                if constexpr (TUPLE) ex::set_value(std::move(r), std::make_tuple(Payload(tag + 1), Payload(tag + 2)));
                else ex::set_value(std::move(r), Payload(tag));
            }
            else if (ch == ERR) ex::set_error(std::move(r), std::make_exception_ptr(TaggedError{tag}));
            else ex::set_stopped(std::move(r));
        }
        static void fire(void* p) { static_cast<operation_state*>(p)->complete(); }
        void start() & noexcept
        {
            if (started) pmc_fail("leaf-started-twice", "leaf (tag %d) started twice", tag);
            started = 1;
            if (!deferred) complete();
            else
            {
                g_pending[g_npending] = {&fire, this};
                ++g_npending;
                pmc_progress();
                pmc_point("leaf-registered");    // the completer may fire it while start() is still on the stack
            }
        }
    };
    template <typename R>
    operation_state<R> connect(R&& r) const { return {std::forward<R>(r), ch, deferred, tag}; }
};
using Leaf = LeafT<false>;
// leaf whose error channel carries an ErrObj by value (value channel: Payload)
struct LeafE
{
    PIKA_STDEXEC_SENDER_CONCEPT
    int ch, deferred, tag;
    template <template <typename...> class Tuple, template <typename...> class Variant>
    using value_types = Variant<Tuple<Payload>>;
    template <template <typename...> class Variant>
    using error_types = Variant<ErrObj>;
    static constexpr bool sends_done = true;
    using completion_signatures = ex::completion_signatures<ex::set_value_t(Payload), ex::set_error_t(ErrObj), ex::set_stopped_t()>;
    template <typename R>
    struct operation_state
    {
        std::decay_t<R> r;
        int ch, deferred, tag;
        int started = 0, completed = 0;
        operation_state(R&& rr, int c, int d, int t) : r(std::forward<R>(rr)), ch(c), deferred(d), tag(t) {}
        operation_state(operation_state&&) = delete;
        ~operation_state() { if (started && !completed) pmc_fail("opstate-destroyed-before-completion", "a started leaf operation state (tag %d) was destroyed before it completed", tag); }
        void complete() noexcept
        {
            completed = 1;
            if (ch == VAL) ex::set_value(std::move(r), Payload(tag));
            else if (ch == ERR) ex::set_error(std::move(r), ErrObj(tag));
            else ex::set_stopped(std::move(r));
        }
        static void fire(void* p) { static_cast<operation_state*>(p)->complete(); }
        void start() & noexcept
        {
            started = 1;
            if (!deferred) complete();
            else { g_pending[g_npending] = {&fire, this}; ++g_npending; pmc_progress(); pmc_point("leaf-registered"); }
        }
    };
    template <typename R>
    operation_state<R> connect(R&& r) const { return {std::forward<R>(r), ch, deferred, tag}; }
};
static Leaf leaf(int ch, int deferred, int tag)
{
    if (deferred) ++g_expected_deferred;
    return Leaf{ch, deferred, tag};
}
// the completer thread: fires deferred leaves in registration order once they are registered
static int g_completer_stop = 0;
static void completer()
{
    int guard = 0;
    while (!(g_completer_stop && g_fired >= g_npending) && ++guard < 4000)
    {
        if (g_fired < g_npending)
        {
            Pending p = g_pending[g_fired];    // claimed before the scheduling point: several completer threads may run
            ++g_fired;
            pmc_point("before-fire");
            p.fire(p.op);
            guard = 0;
        }
        else sched_yield();
    }
}
// called by the main thread once the consumers are done: every deferred leaf that was started must
// have been fired before the completer is told to stop
static void stop_completer(std::thread& c)
{
    int guard = 0;
    while (g_fired < g_expected_deferred && ++guard < 4000) sched_yield();
    g_completer_stop = 1;
    c.join();
}

// ---- manual scheduler: schedule() completes on the thread that drains the queue ---------------------
struct ManualQueue { void (*fn[16])(void*); void* arg[16]; int n = 0, done = 0, stop = 0; std::thread::id drain_thread; };
static ManualQueue* g_mq;
struct manual_scheduler
{
    struct sender
    {
        PIKA_STDEXEC_SENDER_CONCEPT
        template <template <typename...> class Tuple, template <typename...> class Variant>
        using value_types = Variant<Tuple<>>;
        template <template <typename...> class Variant>
        using error_types = Variant<std::exception_ptr>;
        static constexpr bool sends_done = false;
        using completion_signatures = ex::completion_signatures<ex::set_value_t(), ex::set_error_t(std::exception_ptr)>;
        template <typename R>
        struct operation_state
        {
            std::decay_t<R> r;
            static void run(void* p) { ex::set_value(std::move(static_cast<operation_state*>(p)->r)); }
            void start() & noexcept { g_mq->fn[g_mq->n] = &run; g_mq->arg[g_mq->n] = this; ++g_mq->n; pmc_progress(); }
        };
        template <typename R>
        operation_state<R> connect(R&& r) const { return {std::forward<R>(r)}; }
        struct env
        {
            friend manual_scheduler tag_invoke(ex::get_completion_scheduler_t<ex::set_value_t>, env const&) noexcept { return {}; }
        };
        env get_env() const& noexcept { return {}; }
    };
    sender schedule() const noexcept { return {}; }
    friend sender tag_invoke(ex::schedule_t, manual_scheduler) noexcept { return {}; }
    bool operator==(manual_scheduler const&) const noexcept { return true; }
    bool operator!=(manual_scheduler const&) const noexcept { return false; }
};
static void drain()
{
    g_mq->drain_thread = std::this_thread::get_id();
    int guard = 0;
    while (!g_mq->stop && ++guard < 3000)
    {
        if (g_mq->done < g_mq->n) { int i = g_mq->done++; g_mq->fn[i](g_mq->arg[i]); guard = 0; }
        else sched_yield();
    }
}

// ---- common frame -----------------------------------------------------------------------------------
struct Frame
{
    ManualQueue mq;
    Frame()
    {
        Payload::live = Payload::constructed = Payload::destroyed = 0;
        Payload::copy_fuse = Payload::copy_thrown = 0;
        ErrObj::live = ErrObj::constructed = ErrObj::destroyed = 0;
        g_npending = g_fired = g_expected_deferred = 0;
        g_completer_stop = 0;
        g_nq = 0;
        g_live_blocks = 0;
        g_mq = &mq;
        g_quarantine = true;
    }
    void finish(const char* what)
    {
        PMC_ASSERT(Payload::live == 0, "payload-leak", "%s: %d payload objects still alive at the end (constructed %d, destroyed %d)", what, Payload::live, Payload::constructed, Payload::destroyed);
        PMC_ASSERT(ErrObj::live == 0, "payload-leak", "%s: %d error objects still alive at the end (constructed %d, destroyed %d): an error stored by the operation was not destroyed exactly once", what, ErrObj::live, ErrObj::constructed, ErrObj::destroyed);
        check_quarantine();
        g_quarantine = false;
    }
};
// connect + start on the calling thread, wait for the signal, then destroy the operation state
template <typename S>
static void consume(S&& s, Outcome& out)
{
    {
        auto op = ex::connect(std::forward<S>(s), Rec{&out});
        ex::start(op);
        pmc_point("after-start");
        int guard = 0;
        while (out.total() == 0 && ++guard < 3000) sched_yield();
        PMC_ASSERT(out.total() == 1, "no-completion", "operation started but no completion signal arrived");
        out.alive = 0;
    }
}
static void expect(Outcome const& o, int ch, int tag, const char* what)
{
    PMC_ASSERT(o.total() == 1, "completion-count", "%s: %d completion signals (value %d, error %d, stopped %d)", what, o.total(), o.nv, o.ne, o.ns);
    PMC_ASSERT(o.channel() == ch, "wrong-channel", "%s: completed with %s, the composition denotes %s", what, chn[o.channel()], chn[ch]);
    if (ch != STOP) PMC_ASSERT(o.tag == tag, "wrong-payload", "%s: %s carries tag %d, expected %d", what, chn[ch], o.tag, tag);
}

// ---- pipelines ----------------------------------------------------------------------------------------
// then: value -> f(value) (or f throws), error and stopped pass through
static void p_then()
{
    int ch = pmc_choose(3, 0), def = pmc_choose(2, 0), fthrows = pmc_choose(2, 0);
    Frame fr;
    Outcome o;
    std::thread c(completer);
    consume(leaf(ch, def, 10) | ex::then([fthrows](Payload p) { if (fthrows) throw TaggedError{77}; return Payload(p.tag + 1); }) | ex::then([](Payload p) { return p; }), o);
    stop_completer(c);
    if (ch == VAL) expect(o, fthrows ? ERR : VAL, fthrows ? 77 : 11, "leaf | then(f) | then(id)");
    else expect(o, ch, 10, "leaf | then(f) | then(id)");
    fr.finish("then");
    pmc_outcome("%s/%d", chn[o.channel()], o.tag);
}
// let_value / let_error
static void p_let()
{
    int ch = pmc_choose(3, 0), def = pmc_choose(2, 0), ch2 = pmc_choose(3, 0), def2 = pmc_choose(2, 0), which = pmc_choose(2, 0);
    Frame fr;
    Outcome o;
    if (which == 0 && ch != VAL) def2 = 0;    // inner leaf never created
    if (which == 1 && ch != ERR) def2 = 0;
    int inner_deferred = 0;
    std::thread c;
    if (which == 0)
    {
        auto s = leaf(ch, def, 10) | ex::let_value([ch2, def2, &inner_deferred](Payload& p) { if (def2) { ++g_expected_deferred; inner_deferred = 1; } return Leaf{ch2, def2, p.tag * 2}; });
        c = std::thread(completer);
        consume(std::move(s), o);
        if (ch == VAL) expect(o, ch2, 20, "leaf | let_value(-> leaf2)");
        else expect(o, ch, 10, "leaf | let_value(-> leaf2)");
    }
    else
    {
        auto s = leaf(ch, def, 10) | ex::let_error([ch2, def2](std::exception_ptr e) { if (def2) ++g_expected_deferred; return Leaf{ch2, def2, tag_of_error(e) + 5}; });
        c = std::thread(completer);
        consume(std::move(s), o);
        if (ch == ERR) expect(o, ch2, 15, "leaf | let_error(-> leaf2)");
        else expect(o, ch, 10, "leaf | let_error(-> leaf2)");
    }
    stop_completer(c);
    fr.finish("let");
    pmc_outcome("%s/%d", chn[o.channel()], o.tag);
}
// when_all of two leaves
static void p_when_all()
{
    int cha = pmc_choose(3, 0), defa = pmc_choose(2, 0), chb = pmc_choose(3, 0), defb = pmc_choose(2, 0);
    int two = (defa && defb) ? pmc_choose(2, 0) : 0;    // two deferred leaves: completed by one thread in turn or by two threads concurrently
    Frame fr;
    Outcome o;
    std::thread c(completer), c2;
    if (two) c2 = std::thread(completer);
    consume(ex::when_all(leaf(cha, defa, 1), leaf(chb, defb, 2)), o);
    stop_completer(c);
    if (two) c2.join();
    PMC_ASSERT(o.total() == 1, "completion-count", "when_all: %d completion signals", o.total());
    if (cha == VAL && chb == VAL) { expect(o, VAL, 1, "when_all(a, b)"); PMC_ASSERT(o.tag2 == 2, "wrong-payload", "when_all: second value has tag %d", o.tag2); }
    else
    {
        // the first non-value completion decides; with two of them either order is denoted
        bool ok = (cha != VAL && o.channel() == cha && (cha == STOP || o.tag == 1)) || (chb != VAL && o.channel() == chb && (chb == STOP || o.tag == 2));
        PMC_ASSERT(ok, "wrong-channel", "when_all(%s, %s) completed with %s/%d", chn[cha], chn[chb], chn[o.channel()], o.tag);
    }
    fr.finish("when_all");
    pmc_outcome("%s/%d", chn[o.channel()], o.tag);
}
// split: two consumers connect copies and start them on two threads
template <int INNER_THEN>
static void p_split()
{
    int ch = pmc_choose(3, 0), def = pmc_choose(2, 0), second_late = pmc_choose(2, 0);
    Frame fr;
    Outcome o1, o2;
    {
        auto s = ex::split(leaf(ch, def, 10) | ex::then([](Payload p) { return Payload(p.tag + 1); }));
        auto s2 = s;
        std::thread c(completer);
        std::thread t2([&] {
            if (second_late) { int guard = 0; while (o1.total() == 0 && ++guard < 3000) sched_yield(); }
            consume(std::move(s2) | ex::then([](Payload const& p) { return Payload(p.tag); }), o2);
        });
        consume(std::move(s) | ex::then([](Payload const& p) { return Payload(p.tag); }), o1);
        t2.join();
        stop_completer(c);
    }
    expect(o1, ch, ch == VAL ? 11 : 10, "split consumer 1");
    expect(o2, ch, ch == VAL ? 11 : 10, "split consumer 2");
    fr.finish("split");
    pmc_outcome("%s", chn[o1.channel()]);
}
// ensure_started: the predecessor runs eagerly; the consumer connects concurrently with / after completion
static void p_ensure_started()
{
    int ch = pmc_choose(3, 0), def = pmc_choose(2, 0), drop = pmc_choose(2, 0);
    Frame fr;
    Outcome o;
    {
        std::thread c(completer);
        auto s = ex::ensure_started(leaf(ch, def, 10) | ex::then([](Payload p) { return Payload(p.tag + 1); }));
        if (drop)
        {
            // dropped unstarted: must neither leak nor touch anything after the state is gone
            { auto dead = std::move(s); }
            stop_completer(c);
        }
        else
        {
            consume(std::move(s), o);
            stop_completer(c);
            expect(o, ch, ch == VAL ? 11 : 10, "ensure_started(leaf | then)");
        }
    }
    fr.finish("ensure_started");
    pmc_outcome("drop=%d %s", drop, o.total() ? chn[o.channel()] : "-");
}
// continues_on a manual scheduler: the continuation runs on the draining thread
static void p_continues_on()
{
    int ch = pmc_choose(3, 0), def = pmc_choose(2, 0), form = pmc_choose(2, 0);
    Frame fr;
    Outcome o;
    std::thread::id ran_on;
    {
        std::thread c(completer), d(drain);
        if (form == 0)
            consume(leaf(ch, def, 10) | ex::continues_on(manual_scheduler{}) | ex::then([&](Payload p) { ran_on = std::this_thread::get_id(); return p; }), o);
        else
            consume(ex::schedule(manual_scheduler{}) | ex::let_value([ch, def] { if (def) ++g_expected_deferred; return Leaf{ch, def, 10}; }) | ex::then([&](Payload p) { ran_on = std::this_thread::get_id(); return p; }), o);
        fr.mq.stop = 1;
        stop_completer(c);
        d.join();
    }
    expect(o, ch, 10, form == 0 ? "leaf | continues_on(s) | then" : "schedule(s) | let_value(-> leaf) | then");
    if (ch == VAL && form == 0) PMC_ASSERT(ran_on == fr.mq.drain_thread, "wrong-context", "continuation after continues_on(s) did not run on s");
    fr.finish("continues_on");
    pmc_outcome("%s", chn[o.channel()]);
}
// start_detached: completion later on another thread; everything it allocated must be released once
static void p_start_detached()
{
    int ch = pmc_choose(2, 0), def = pmc_choose(2, 0);    // value / error (stopped terminates by contract)
    Frame fr;
    static int seen;
    seen = 0;
    long before = g_live_blocks;
    {
        std::thread c(completer);
        auto tail = [](Payload p) { seen = p.tag; pmc_progress(); };
        if (ch == VAL) ex::start_detached(leaf(VAL, def, 10) | ex::then(tail));
        else ex::start_detached(leaf(ERR, def, 10) | ex::let_error([](std::exception_ptr e) { return ex::just(Payload(tag_of_error(e))); }) | ex::then(tail));
        int guard = 0;
        while (seen == 0 && ++guard < 3000) sched_yield();
        stop_completer(c);
    }
    PMC_ASSERT(seen == 10, "no-completion", "start_detached: continuation saw tag %d", seen);
    PMC_ASSERT(g_live_blocks == before, "allocation-leak", "start_detached: %ld heap blocks still alive after completion", g_live_blocks - before);
    fr.finish("start_detached");
    pmc_outcome("%s", chn[ch]);
}
// depth 2: when_all over two continuations of one split; ensure_started feeding split
static void p_split_when_all()
{
    int ch = pmc_choose(3, 0), def = pmc_choose(2, 0), form = pmc_choose(2, 0);
    Frame fr;
    Outcome o, o2;
    {
        std::thread c(completer);
        if (form == 0)
        {
            auto s = ex::split(leaf(ch, def, 10));
            consume(ex::when_all(s | ex::then([](Payload const& p) { return Payload(p.tag + 1); }), s | ex::then([](Payload const& p) { return Payload(p.tag + 2); })), o);
            if (ch == VAL) { expect(o, VAL, 11, "when_all(split|then, split|then)"); PMC_ASSERT(o.tag2 == 12, "wrong-payload", "second value tag %d", o.tag2); }
            else expect(o, ch, 10, "when_all(split|then, split|then)");
        }
        else
        {
            auto s = ex::split(ex::ensure_started(leaf(ch, def, 10)));
            auto s2 = s;
            std::thread t2([&] { consume(std::move(s2) | ex::then([](Payload const& p) { return Payload(p.tag); }), o2); });
            consume(std::move(s) | ex::then([](Payload const& p) { return Payload(p.tag); }), o);
            t2.join();
            expect(o, ch, 10, "split(ensure_started(leaf)) consumer 1");
            expect(o2, ch, 10, "split(ensure_started(leaf)) consumer 2");
        }
        stop_completer(c);
    }
    fr.finish("split_when_all");
    pmc_outcome("%s", chn[o.channel()]);
}
// type-erased senders and the small adaptors: same completion as the plain pipeline
static void p_erased_small()
{
    int ch = pmc_choose(3, 0), def = pmc_choose(2, 0), form = pmc_choose(7, 0);
    int fuse = form >= 5 ? pmc_choose(3, 0) : 0;
    Frame fr;
    Outcome o;
    {
        std::thread c(completer);
        switch (form)
        {
        case 5:
        case 6:
        {
            // a value that is handed to the type-erased receiver by reference (split sends T const&) is copied at
            // the hand-over; the fuse makes the first / second copy after start throw: exactly one completion,
            // the error carrying that exception
            auto sp = ex::split(leaf(ch, def, 10));
            Payload::copy_fuse = ch == VAL ? fuse : 0;    // (error leaves copy a Payload inside the harness' own TaggedError)
            if (form == 5) consume(ex::unique_any_sender<Payload>(std::move(sp)), o);
            else { ex::any_sender<Payload> as(std::move(sp)); consume(as, o); }
            Payload::copy_fuse = 0;
            if (Payload::copy_thrown) expect(o, ch == VAL ? ERR : ch, ch == VAL ? -3 : 10, "any_sender(split(leaf)), copy of the value throws");
            else expect(o, ch, 10, "any_sender(split(leaf))");
            break;
        }
        case 0: consume(ex::unique_any_sender<Payload>(leaf(ch, def, 10) | ex::then([](Payload p) { return Payload(p.tag + 1); })), o); expect(o, ch, ch == VAL ? 11 : 10, "unique_any_sender(leaf | then)"); break;
        case 1: consume(ex::drop_value(leaf(ch, def, 10)), o); expect(o, ch, ch == VAL ? 0 : 10, "drop_value(leaf)"); break;
        case 2: consume(ex::drop_operation_state(leaf(ch, def, 10)) | ex::then([](Payload p) { return p; }), o); expect(o, ch, 10, "drop_operation_state(leaf) | then"); break;
        case 3: consume(ex::require_started(leaf(ch, def, 10)), o); expect(o, ch, 10, "require_started(leaf)"); break;
        case 4:
            // a predecessor that signals its error by reference into its own operation state (when_all stores
            // it): drop_operation_state destroys that state before it signals, the error must survive
            consume(ex::when_all(leaf(ch, def, 10), ex::just(Payload(7))) | ex::drop_operation_state(), o);
            expect(o, ch, 10, "when_all(leaf, just) | drop_operation_state");
            if (ch == VAL) PMC_ASSERT(o.tag2 == 7, "wrong-payload", "when_all(leaf, just) | drop_operation_state: second value has tag %d", o.tag2);
            break;
        }
        stop_completer(c);
    }
    fr.finish("erased_small");
    pmc_outcome("%d %s %d", form, chn[o.channel()], Payload::copy_thrown);
}

// split_tuple: one predecessor sending a tuple, one sender per element, consumers on two threads
template <int AFTER_THEN>
static void p_split_tuple()
{
    int ch = AFTER_THEN ? STOP : pmc_choose(3, 0), def = pmc_choose(2, 0);
    Frame fr;
    Outcome o0, o1;
    {
        std::thread c(completer);
        if (def) ++g_expected_deferred;
        auto make = [&] {
            // AFTER_THEN: the tuple is produced by a then() in front of split_tuple; then_sender declares
            // sends_done = false although it forwards an upstream stopped signal
            if constexpr (AFTER_THEN) return ex::split_tuple(LeafT<false>{ch, def, 10} | ex::then([](Payload p) { return std::make_tuple(Payload(p.tag + 1), Payload(p.tag + 2)); }));
            else return ex::split_tuple(LeafT<true>{ch, def, 10});
        };
        auto [s0, s1] = make();
        std::thread t2([&, s1 = std::move(s1)]() mutable { consume(std::move(s1), o1); });
        consume(std::move(s0), o0);
        t2.join();
        stop_completer(c);
    }
    expect(o0, ch, ch == VAL ? 11 : 10, "split_tuple element 0");
    expect(o1, ch, ch == VAL ? 12 : 10, "split_tuple element 1");
    fr.finish("split_tuple");
    pmc_outcome("%s", chn[o0.channel()]);
}
// when_all_vector, unpack, transfer_just, sync_wait
static void p_more()
{
    int form = pmc_choose(4, 0), ch = pmc_choose(3, 0), def = pmc_choose(2, 0);
    Frame fr;
    Outcome o;
    {
        std::thread c(completer), d(drain);
        switch (form)
        {
        case 0:
        {
            // first element: a value completed inline, or the same channel/timing as the second one (two errors
            // or two stopped signals racing each other when both are deferred and two threads complete them)
            int both = pmc_choose(2, 0);
            std::vector<Leaf> v;
            v.push_back(both ? leaf(ch, def, 1) : leaf(VAL, 0, 1));
            v.push_back(leaf(ch, def, 2));
            std::thread c2;
            if (both && def) c2 = std::thread(completer);
            consume(ex::when_all_vector(std::move(v)), o);
            if (c2.joinable()) { int guard = 0; while (g_fired < g_expected_deferred && ++guard < 4000) sched_yield(); }
            if (ch == VAL) expect(o, VAL, 3, "when_all_vector{a, b}");
            else if (!both) expect(o, ch, 2, "when_all_vector{a, b}");
            else
            {
                PMC_ASSERT(o.total() == 1 && o.channel() == ch, "wrong-channel", "when_all_vector of two %s senders completed with %s (%d signals)", chn[ch], o.total() ? chn[o.channel()] : "nothing", o.total());
                if (ch == ERR) PMC_ASSERT(o.tag == 1 || o.tag == 2, "wrong-payload", "when_all_vector: the error delivered (tag %d) is none of the two upstream errors", o.tag);
            }
            if (c2.joinable()) { g_completer_stop = 1; c2.join(); g_completer_stop = 0; }
            break;
        }
        case 1:
            consume(leaf(ch, def, 10) | ex::then([](Payload p) { return std::make_tuple(Payload(p.tag + 1), Payload(p.tag + 2)); }) | ex::unpack() | ex::then([](Payload a, Payload b) { return Payload(a.tag * 100 + b.tag); }), o);
            expect(o, ch, ch == VAL ? 1112 : 10, "leaf | then(tuple) | unpack | then");
            break;
        case 2:
            consume(ex::transfer_just(manual_scheduler{}, Payload(5)) | ex::let_value([ch, def](Payload& p) { if (def) ++g_expected_deferred; return Leaf{ch, def, p.tag + 1}; }), o);
            expect(o, ch, 6, "transfer_just(s, v) | let_value(-> leaf)");
            break;
        case 3:
            if (ch == STOP) { pmc_outcome("skipped"); break; }    // sync_wait of a stopped sender terminates by contract
            try
            {
                auto r = tt::sync_wait(leaf(ch, def, 10) | ex::then([](Payload p) { return Payload(p.tag + 1); }));
                PMC_ASSERT(ch == VAL && r.tag == 11, "wrong-payload", "sync_wait returned tag %d", r.tag);
                o.nv = 1;
            }
            catch (TaggedError const& e)
            {
                PMC_ASSERT(ch == ERR && e.tag == 10, "wrong-channel", "sync_wait threw tag %d", e.tag);
                o.ne = 1;
            }
            break;
        }
        fr.mq.stop = 1;
        stop_completer(c);
        d.join();
    }
    fr.finish("more");
    pmc_outcome("%d %s", form, o.total() ? chn[o.channel()] : "-");
}

// errors sent by value, two predecessors failing at the same time on two threads: exactly one error
// reaches the receiver and every error object that was created is destroyed exactly once
static void p_two_errors()
{
    int form = pmc_choose(2, 0);    // 0 when_all_vector, 1 when_all
    int cha = 1 + pmc_choose(2, 0), chb = 1 + pmc_choose(2, 0);    // error / stopped
    Frame fr;
    Outcome o;
    {
        std::thread c(completer), c2(completer);
        g_expected_deferred += 2;
        if (form == 0)
        {
            std::vector<LeafE> v;
            v.push_back(LeafE{cha, 1, 1});
            v.push_back(LeafE{chb, 1, 2});
            consume(ex::when_all_vector(std::move(v)), o);
        }
        else consume(ex::when_all(LeafE{cha, 1, 1}, LeafE{chb, 1, 2}), o);
        stop_completer(c);
        c2.join();
    }
    PMC_ASSERT(o.total() == 1 && o.nv == 0, "completion-count", "two failing predecessors: %d completion signals (value %d, error %d, stopped %d)", o.total(), o.nv, o.ne, o.ns);
    if (o.ne) PMC_ASSERT((cha == ERR && o.tag == 1) || (chb == ERR && o.tag == 2), "wrong-payload", "the error delivered (tag %d) is none of the upstream errors", o.tag);
    else PMC_ASSERT(cha == STOP || chb == STOP, "wrong-channel", "stopped delivered although no predecessor stopped");
    fr.finish("two_errors");
    pmc_outcome("%d %s", form, chn[o.channel()]);
}

#ifndef C03_NO_MAIN
int main(int argc, char** argv)
{
    mallopt(M_PERTURB, 0xA5);    // freed malloc memory (exception objects) is overwritten: a dangling exception_ptr cannot look valid
    static const char* sites = "execution/algorithms|execution_base/(any_sender|operation_state|receiver|sender)|_Sp_counted_base|intrusive_ptr|atomic_count";
    static const char* focus = "F-site: all atomics of the adaptor headers (split/ensure_started shared state: spinlock, predecessor_done, reference count; when_all counters; start_detached), any_sender, reference counts; all pthread operations";
    static const pmc_spec specs[] = {
        {"then", p_then, 3, 4, 0.05, 0.05, 1, focus, sites, nullptr},
        {"let_value_error", p_let, 3, 4, 0.1, 0.1, 1, focus, sites, nullptr},
        {"when_all", p_when_all, 3, 4, 0.1, 0.1, 1, focus, sites, nullptr},
        {"split", p_split<0>, 3, 4, 0.2, 0.2, 1, focus, sites, nullptr},
        {"ensure_started", p_ensure_started, 3, 4, 0.15, 0.15, 1, focus, sites, nullptr},
        {"continues_on_schedule", p_continues_on, 3, 4, 0.1, 0.1, 1, focus, sites, nullptr},
        {"start_detached", p_start_detached, 3, 4, 0.05, 0.05, 1, focus, sites, nullptr},
        {"split_when_all_ensure", p_split_when_all, 3, 4, 0.15, 0.15, 1, focus, sites, nullptr},
        {"erased_small_adaptors", p_erased_small, 3, 4, 0.1, 0.1, 1, focus, sites, nullptr},
        {"split_tuple", p_split_tuple<0>, 3, 4, 0.1, 0.1, 1, focus, sites, nullptr},
        {"split_tuple_after_then_stopped", p_split_tuple<1>, 0, 1, 0.02, 0.02, 0, focus, sites, nullptr},
        {"two_errors_by_value", p_two_errors, 2, 3, 0.05, 0.05, 1, focus, sites, nullptr},
        {"vector_unpack_transfer_syncwait", p_more, 3, 4, 0.1, 0.1, 1, focus, sites, nullptr},
    };
    static const char* assumptions[] = {"sequentially consistent interleavings only", "pipelines of depth 1-2 over a curated adaptor set; leaves complete with value / error / stopped, inline in start or later on a completer thread",
        "a manual scheduler stands in for schedulers inside terms (C10 covers the thread pool scheduler)"};
    pmc_config cfg{};
    cfg.property_id = "C03";
    cfg.rule = "pipelines (then, let_value, let_error, when_all, split, ensure_started, continues_on, schedule, start_detached, drop_value, drop_operation_state, require_started, unique_any_sender and depth-2 combinations) x completion channel of every leaf x inline/deferred timing x consumer placement (data choices) x all schedules within the deviation bound";
    cfg.assumptions = assumptions;
    cfg.n_assumptions = 3;
    cfg.quick_budget_s = 110;
    cfg.thorough_budget_s = 900;
    return pmc_main(argc, argv, &cfg, specs, sizeof specs / sizeof specs[0]);
}
#endif
