// C19: suspending and resuming pools or workers never loses work.  pmc-rt: default pool (2 workers,
// elasticity) + a 1-worker control pool.
#include "rt_common.h"
#include <pika/runtime/thread_pool_helpers.hpp>
#include <pika/threading_base/scheduler_mode.hpp>
#include <pika/threading_base/thread_num_tss.hpp>
#include <pika/synchronization/event.hpp>

namespace ex = rt::ex;
static const int NT = 8;
struct Ledger
{
    int entered[NT] = {0}, left[NT] = {0};
    int calls_returned = 0, phase = 0, refused = 0, finished = 0;
};
static Ledger* g;
static void on_stuck()
{
    char b[160];
    int n = 0;
    for (int i = 0; i < NT; ++i) n += snprintf(b + n, sizeof b - n, " %d/%d", g->entered[i], g->left[i]);
    pmc_fail("stuck", "a suspend/resume call did not return or work is stranded (phase %d, calls returned %d; entered/left per task:%s)", g->phase, g->calls_returned, b);
}
static void body(int id)
{
    ++g->entered[id];
    PMC_ASSERT(g->entered[id] == 1, "duplicated", "task %d ran twice", id);
    pika::this_thread::yield();
    ++g->left[id];
}
template <bool ELASTIC>
static void pools(pika::resource::partitioner& rp, pika::program_options::variables_map const&)
{
    using pika::threads::scheduler_mode;
    auto mode = ELASTIC ? scheduler_mode(scheduler_mode::default_mode | scheduler_mode::enable_elasticity) : scheduler_mode::default_mode;
    rp.create_thread_pool("default", pika::resource::scheduling_policy::local_priority_fifo, mode);
    rp.create_thread_pool("ctl", pika::resource::scheduling_policy::local_priority_fifo, scheduler_mode::default_mode);
    int count = 0;
    for (auto const& d : rp.sockets())
        for (auto const& c : d.cores())
            for (auto const& p : c.pus())
                if (count++ == 0) rp.add_resource(p, "ctl");
}
// the per-worker state words of the default pool's scheduler (running / pre_sleep / sleeping ...)
static void watch_states()
{
    auto* sched = pika::resource::get_thread_pool("default").get_scheduler();
    pmc_watch(sched->states_.data(), sched->states_.size() * sizeof(sched->states_[0]), "states");
    // the pthread mutexes / condition variables sleeping workers block on: locking them and signalling
    // them are scheduling points (window between publishing 'sleeping' and actually waiting)
    pmc_watch(sched->suspend_mtxs_.data(), sched->suspend_mtxs_.size() * sizeof(sched->suspend_mtxs_[0]), "suspend_mtx");
    pmc_watch(sched->suspend_conds_.data(), sched->suspend_conds_.size() * sizeof(sched->suspend_conds_[0]), "suspend_cond");
}
static void submit(int id, int hint)
{
    auto& pool = pika::resource::get_thread_pool("default");
    auto sched = ex::thread_pool_scheduler{&pool};
    if (hint >= 0) ex::execute(ex::with_hint(sched, pika::execution::thread_schedule_hint(hint)), [id] { body(id); });
    else ex::execute(sched, [id] { body(id); });
}

// suspend PU k, submit work with and without hints, resume (optionally back-to-back), all from a task
// of the control pool or from the main thread
static void pu_prog()
{
    static Ledger L;
    L = Ledger{};
    g = &L;
    int k = pmc_choose(2, 0);
    int from_ctl_task = pmc_choose(2, 0);
    int back_to_back = pmc_choose(2, 0);
    pmc_on_stuck(on_stuck);
    rt::config c;
    c.workers = 3;
    c.rp_callback = &pools<true>;
    rt::start(c);
    watch_states();
    auto script = [&, k, back_to_back] {
        auto& pool = pika::resource::get_thread_pool("default");
        submit(0, -1);
        L.phase = 1;
        pool.suspend_processing_unit_direct(k);
        ++L.calls_returned;
        if (!back_to_back)
        {
            submit(1, k);         // queued on the sleeping worker (or taken by the other one)
            submit(2, 1 - k);
            submit(3, -1);
        }
        L.phase = 2;
        pool.resume_processing_unit_direct(k);
        ++L.calls_returned;
        L.phase = 3;
        submit(4, k);
        submit(5, -1);
        ++L.finished;
    };
    if (from_ctl_task) ex::execute(ex::thread_pool_scheduler{&pika::resource::get_thread_pool("ctl")}, script);
    else script();
    L.phase = 4;
    rt::stop();
    PMC_ASSERT(L.finished == 1 && L.calls_returned == 2, "call-did-not-return", "script finished %d, calls returned %d", L.finished, L.calls_returned);
    for (int i = 0; i < 6; ++i)
    {
        if (back_to_back && i >= 1 && i <= 3) continue;
        PMC_ASSERT(L.entered[i] == 1 && L.left[i] == 1, "task-lost", "task %d (submitted around suspend/resume of PU %d): entered %d, completed %d", i, k, L.entered[i], L.left[i]);
    }
    pmc_outcome("k=%d ctl=%d b2b=%d", k, from_ctl_task, back_to_back);
}

// suspend PU k and resume PU k issued by two OS threads without waiting for each other: whatever their order,
// both calls return and no work is lost (afterwards the PU is resumed once more: the resume may have come first)
#include <thread>
static void pu_concurrent_prog()
{
    static Ledger L;
    L = Ledger{};
    g = &L;
    int k = pmc_choose(2, 0);
    pmc_on_stuck(on_stuck);
    rt::config c;
    c.workers = 3;
    c.rp_callback = &pools<true>;
    rt::start(c);
    watch_states();
    auto& pool = pika::resource::get_thread_pool("default");
    submit(0, k);
    L.phase = 1;
    {
        std::thread ts([&, k] { pool.suspend_processing_unit_direct(k); ++L.calls_returned; });
        std::thread tr([&, k] { pool.resume_processing_unit_direct(k); ++L.calls_returned; });
        ts.join();
        tr.join();
    }
    L.phase = 2;
    submit(1, k);
    pool.resume_processing_unit_direct(k);
    ++L.calls_returned;
    L.phase = 3;
    submit(2, k);
    submit(3, -1);
    ++L.finished;
    L.phase = 4;
    rt::stop();
    PMC_ASSERT(L.finished == 1 && L.calls_returned == 3, "call-did-not-return", "calls returned %d of 3", L.calls_returned);
    for (int i = 0; i < 4; ++i)
        PMC_ASSERT(L.entered[i] == 1 && L.left[i] == 1, "task-lost", "task %d (submitted around concurrent suspend/resume of PU %d): entered %d, completed %d", i, k, L.entered[i], L.left[i]);
    pmc_outcome("k=%d", k);
}

// a task that was created on worker k's queue is blocked (suspended on an event) while worker k is
// suspended and resumed; it is released only after the resume.  The suspend call must return all the same,
// the other worker keeps completing tasks, the blocked task completes after its release.
static void pu_blocked_prog()
{
    static Ledger L;
    L = Ledger{};
    g = &L;
    int k = pmc_choose(2, 0);
    int from_ctl_task = pmc_choose(2, 0);
    pmc_on_stuck(on_stuck);
    rt::config c;
    c.workers = 3;
    c.rp_callback = &pools<true>;
    rt::start(c);
    watch_states();
    auto& ev = *new pika::experimental::event;
    static int about_to_block;
    about_to_block = 0;
    auto script = [&, k] {
        auto& pool = pika::resource::get_thread_pool("default");
        ex::execute(ex::with_hint(ex::thread_pool_scheduler{&pool}, pika::execution::thread_schedule_hint(k)), [&] {
            ++g->entered[6];
            about_to_block = 1;
            ev.wait();
            ++g->left[6];
        });
        int guard = 0;
        while (!about_to_block && ++guard < 400) { if (pika::threads::detail::get_self_ptr()) pika::this_thread::yield(); else sched_yield(); }
        L.phase = 1;
        pool.suspend_processing_unit_direct(k);
        ++L.calls_returned;
        submit(1, 1 - k);    // the remaining worker keeps completing work
        L.phase = 2;
        pool.resume_processing_unit_direct(k);
        ++L.calls_returned;
        L.phase = 3;
        ev.set();
        submit(2, k);
        ++L.finished;
    };
    if (from_ctl_task) ex::execute(ex::thread_pool_scheduler{&pika::resource::get_thread_pool("ctl")}, script);
    else script();
    L.phase = 4;
    rt::stop();
    PMC_ASSERT(L.finished == 1 && L.calls_returned == 2, "call-did-not-return", "script finished %d, calls returned %d", L.finished, L.calls_returned);
    PMC_ASSERT(L.entered[6] == 1 && L.left[6] == 1, "task-lost", "the task blocked across suspend/resume of PU %d: entered %d, completed %d", k, L.entered[6], L.left[6]);
    for (int i = 1; i <= 2; ++i) PMC_ASSERT(L.entered[i] == 1 && L.left[i] == 1, "task-lost", "task %d: entered %d, completed %d", i, L.entered[i], L.left[i]);
    pmc_outcome("k=%d ctl=%d", k, from_ctl_task);
}

// whole pool
static void pool_prog()
{
    static Ledger L;
    L = Ledger{};
    g = &L;
    int from_ctl_task = pmc_choose(2, 0);
    pmc_on_stuck(on_stuck);
    rt::config c;
    c.workers = 3;
    c.rp_callback = &pools<true>;
    rt::start(c);
    watch_states();
    auto script = [&] {
        auto& pool = pika::resource::get_thread_pool("default");
        submit(0, -1);
        L.phase = 1;
        pool.suspend_direct();
        ++L.calls_returned;
        PMC_ASSERT(L.left[0] == 1, "suspend-returned-early", "pool suspend returned while its work was unfinished");
        submit(1, 0);
        submit(2, -1);
        for (int i = 0; i < 2; ++i) { if (pika::threads::detail::get_self_ptr()) pika::this_thread::yield(); else sched_yield(); }
        PMC_ASSERT(L.entered[1] == 0 && L.entered[2] == 0, "ran-while-suspended", "a task ran on the suspended pool");
        L.phase = 2;
        pool.resume_direct();
        ++L.calls_returned;
        submit(3, 1);
        ++L.finished;
    };
    if (from_ctl_task) ex::execute(ex::thread_pool_scheduler{&pika::resource::get_thread_pool("ctl")}, script);
    else script();
    rt::stop();
    PMC_ASSERT(L.finished == 1 && L.calls_returned == 2, "call-did-not-return", "script finished %d, calls returned %d", L.finished, L.calls_returned);
    for (int i = 0; i < 4; ++i) PMC_ASSERT(L.entered[i] == 1 && L.left[i] == 1, "task-lost", "task %d: entered %d, completed %d", i, L.entered[i], L.left[i]);
    pmc_outcome("ctl=%d", from_ctl_task);
}

// pool suspension on top of individually suspended workers: both workers of the pool are suspended one by
// one, then the whole pool is suspended and resumed; the calls return and the queued work runs afterwards
static void pool_after_pu_prog()
{
    static Ledger L;
    L = Ledger{};
    g = &L;
    int from_ctl_task = pmc_choose(2, 0);
    int order = pmc_choose(2, 0);    // which worker is suspended first
    pmc_on_stuck(on_stuck);
    rt::config c;
    c.workers = 3;
    c.rp_callback = &pools<true>;
    rt::start(c);
    watch_states();
    auto script = [&, order] {
        auto& pool = pika::resource::get_thread_pool("default");
        submit(0, -1);
        L.phase = 1;
        pool.suspend_processing_unit_direct(order);
        ++L.calls_returned;
        pool.suspend_processing_unit_direct(1 - order);
        ++L.calls_returned;
        L.phase = 2;
        pool.suspend_direct();
        ++L.calls_returned;
        submit(1, 0);
        submit(2, -1);
        L.phase = 3;
        pool.resume_direct();
        ++L.calls_returned;
        submit(3, 1);
        ++L.finished;
    };
    if (from_ctl_task) ex::execute(ex::thread_pool_scheduler{&pika::resource::get_thread_pool("ctl")}, script);
    else script();
    L.phase = 4;
    rt::stop();
    PMC_ASSERT(L.finished == 1 && L.calls_returned == 4, "call-did-not-return", "script finished %d, calls returned %d of 4", L.finished, L.calls_returned);
    for (int i = 0; i < 4; ++i) PMC_ASSERT(L.entered[i] == 1 && L.left[i] == 1, "task-lost", "task %d: entered %d, completed %d", i, L.entered[i], L.left[i]);
    pmc_outcome("ctl=%d order=%d", from_ctl_task, order);
}

// refused operations leave the pool running
static void refused_prog()
{
    static Ledger L;
    L = Ledger{};
    g = &L;
    int which = pmc_choose(2, 0);
    pmc_on_stuck(on_stuck);
    rt::config c;
    c.workers = 3;
    if (which == 0) c.rp_callback = &pools<false>;    // no elasticity
    else c.rp_callback = &pools<true>;
    rt::start(c);
    if (which == 0)
    {
        auto& pool = pika::resource::get_thread_pool("default");
        pika::error_code ec(pika::throwmode::lightweight);
        pool.suspend_processing_unit_direct(0, ec);
        if (ec.value() == (int) pika::error::invalid_status) ++L.refused;
        bool thrown = false;
        try { pool.suspend_processing_unit_direct(1); } catch (pika::exception const& e) { thrown = e.get_error() == pika::error::invalid_status; }
        if (thrown) ++L.refused;
        submit(0, 0);
        submit(1, 1);
    }
    else
    {
        // a pool suspending itself
        auto& pool = pika::resource::get_thread_pool("default");
        ex::execute(ex::thread_pool_scheduler{&pool}, [&] {
            pika::error_code ec(pika::throwmode::lightweight);
            pool.suspend_direct(ec);
            if (ec.value() == (int) pika::error::bad_parameter) ++L.refused;
            bool thrown = false;
            try { pool.suspend_direct(); } catch (pika::exception const& e) { thrown = e.get_error() == pika::error::bad_parameter; }
            if (thrown) ++L.refused;
            submit(0, 0);
            submit(1, 1);
        });
    }
    rt::stop();
    PMC_ASSERT(L.refused == 2, "not-refused", "unsupported suspension was not refused with the documented error (%d of 2)", L.refused);
    for (int i = 0; i < 2; ++i) PMC_ASSERT(L.left[i] == 1, "task-lost", "pool did not keep running after a refused operation (task %d)", i);
    pmc_outcome("which=%d", which);
}

int main(int argc, char** argv)
{
    static const char* sites = "scheduler_base::(suspend|resume|select_active_pu)|suspend_processing_unit|resume_processing_unit|suspend_internal|resume_internal|::suspend_direct|::resume_direct";
    static const char* focus = "F-addr: the per-worker state words (running/pre_sleep/sleeping) of the pool's scheduler; F-site (stores, rmw, cas): scheduler_base suspend/resume/select_active_pu, (suspend|resume)_processing_unit_*, pool suspend/resume; the pthread mutex/condition variables of sleeping workers are always scheduling decisions";
    static const pmc_spec specs[] = {
        {"pu_suspend_resume", pu_prog, 1, 2, 0.4, 0.4, 1, focus, sites, "src"},
        {"pu_suspend_resume_concurrent", pu_concurrent_prog, 1, 2, 0.25, 0.15, 1, focus, sites, "src"},
        {"pool_suspend_resume", pool_prog, 1, 2, 0.25, 0.25, 1, focus, sites, "src"},
        {"pool_suspend_after_pu_suspends", pool_after_pu_prog, 0, 1, 0.1, 0.1, 1, focus, sites, "src"},
        {"pu_suspend_with_blocked_task", pu_blocked_prog, 1, 2, 0.2, 0.2, 1, focus, sites, "src"},
        {"refused", refused_prog, 1, 1, 0.15, 0.15, 1, focus, sites, "src"},
    };
    static const char* assumptions[] = {"sequentially consistent interleavings only", "default pool with 2 workers (local-priority-fifo, elasticity) + 1-worker control pool", "at most 2 non-canonical successor choices at blocking points per execution (besides the deviation bound)"};
    pmc_config cfg{};
    cfg.property_id = "C19";
    cfg.rule = "histories {submit, suspend PU k, submit hinted/unhinted, resume PU k (also back-to-back), submit; pool suspend, submit, resume; refused operations} issued from the main thread or from a task of the control pool (data choices) x all schedules within the deviation bound";
    cfg.assumptions = assumptions;
    cfg.n_assumptions = 3;
    cfg.warmup = rt::warmup;
    cfg.quick_budget_s = 110;
    cfg.thorough_budget_s = 900;
    cfg.exec_timeout_s = 30;
    cfg.free_block_bound = 2;    // at most 2 non-default successor choices at blocking points per execution
    return pmc_main(argc, argv, &cfg, specs, sizeof specs / sizeof specs[0]);
}
