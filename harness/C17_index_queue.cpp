// C17 (part 1): contiguous_index_queue — every index taken exactly once, nothing invented,
// quiescent pop succeeds, ascending from the left / descending from the right.
#include "pmc.h"
#include <pika/concurrency/detail/contiguous_index_queue.hpp>
#include <thread>
#include <vector>
#include <optional>
#include <cstdio>

using queue_t = pika::concurrency::detail::contiguous_index_queue<std::uint32_t>;
static const std::uint32_t FIRST = 5;

static void check_final(queue_t& q, std::vector<std::uint32_t> const& popped, int n, int attempts)
{
    // "a pop on a non-empty quiescent container succeeds" + exactly-once after drain
    int succ = (int) popped.size();
    int expect = attempts < n ? attempts : n;
    PMC_ASSERT(succ == expect, "pop-count", "n=%d attempts=%d successful=%d (expected %d)", n, attempts, succ, expect);
    std::vector<int> seen(n, 0);
    auto account = [&](std::uint32_t v, const char* who) {
        PMC_ASSERT(v >= FIRST && v < FIRST + (std::uint32_t) n, "invented", "%s returned %u outside [%u,%u)", who, v, FIRST, FIRST + n);
        PMC_ASSERT(++seen[v - FIRST] == 1, "duplicate", "%s: index %u returned twice", who, v);
    };
    for (auto v : popped) account(v, "concurrent pop");
    int remaining = n - succ;
    for (int i = 0; i < remaining; ++i)
    {
        auto r = q.pop_left();
        PMC_ASSERT(r.has_value(), "quiescent-pop-failed", "queue holds %d more indices but pop_left returned nothing", remaining - i);
        account(*r, "drain");
    }
    PMC_ASSERT(!q.pop_left().has_value() && !q.pop_right().has_value() && q.empty(), "not-empty-after-drain", "queue not empty after all %d indices were taken", n);
    for (int i = 0; i < n; ++i) PMC_ASSERT(seen[i] == 1, "lost", "index %u never returned", FIRST + i);
}

template <int T, int OPS>
static void concurrent()
{
    int n = pmc_choose(5, 0);
    int ops[T][OPS];
    // threads are symmetric: op words as a non-decreasing sequence of word numbers
    int nwords = 1 << OPS, prev = 0;
    for (int t = 0; t < T; ++t)
    {
        int w = prev + pmc_choose(nwords - prev, 0);
        prev = w;
        for (int o = 0; o < OPS; ++o) ops[t][o] = (w >> o) & 1;
    }
    queue_t q(FIRST, FIRST + n);
    pmc_watch(&q, sizeof q, "queue");
    std::vector<std::uint32_t> got[T];
    std::vector<std::thread> th;
    for (int t = 0; t < T; ++t)
        th.emplace_back([&, t] {
            for (int o = 0; o < OPS; ++o)
            {
                auto r = ops[t][o] ? q.pop_right() : q.pop_left();
                if (r) got[t].push_back(*r);
            }
        });
    for (auto& x : th) x.join();
    std::vector<std::uint32_t> all;
    for (int t = 0; t < T; ++t)
    {
        for (auto v : got[t]) all.push_back(v);
    }
    check_final(q, all, n, T * OPS);
    pmc_outcome("n=%d got=%zu", n, all.size());
}

// sequential order: all op words up to length 5 on all sizes 0..4 against a reference deque of ints
static void sequential()
{
    int n = pmc_choose(5, 0);
    int len = pmc_choose(6, 0);
    queue_t q(FIRST, FIRST + n);
    std::uint32_t lo = FIRST, hi = FIRST + n;    // reference model: remaining = [lo, hi)
    for (int i = 0; i < len; ++i)
    {
        int right = pmc_choose(2, 0);
        auto r = right ? q.pop_right() : q.pop_left();
        if (lo >= hi) { PMC_ASSERT(!r.has_value(), "seq-empty", "pop on empty queue returned %u", *r); }
        else
        {
            PMC_ASSERT(r.has_value(), "seq-nonempty", "pop on non-empty queue failed");
            std::uint32_t want = right ? --hi : lo++;
            PMC_ASSERT(*r == want, "seq-order", "%s returned %u, expected %u", right ? "pop_right" : "pop_left", *r, want);
        }
        PMC_ASSERT(q.empty() == (lo >= hi), "seq-empty-flag", "empty() disagrees with reference");
    }
    // copy keeps the remaining range
    queue_t c(q);
    for (std::uint32_t v = lo; v < hi; ++v) { auto r = c.pop_left(); PMC_ASSERT(r && *r == v, "seq-copy", "copy lost order"); }
    pmc_outcome("n=%d len=%d left=%u", n, len, hi - lo);
}

int main(int argc, char** argv)
{
    static const char* focus = "F-addr: the queue object (current_range 64-bit atomic: load + CAS per pop)";
    static const pmc_spec specs[] = {
        {"iq_seq", sequential, 0, 0, 0.1, 0.05, 0, "sequential histories (data choices only)"},
        {"iq_2x2", concurrent<2, 2>, 8, 8, 0.3, 0.1, 1, focus},
        {"iq_3x2", concurrent<3, 2>, 2, 4, 0.6, 0.85, 1, focus},
    };
    static const char* assumptions[] = {"sequentially consistent interleavings only", "compare_exchange_weak never fails spuriously"};
    pmc_config cfg{};
    cfg.property_id = "C17";
    cfg.rule = "index queue: sizes 0..4 x all pop_left/pop_right op words for the threads x all schedules within the deviation bound (bound 8 on 2x2 threads = every interleaving)";
    cfg.assumptions = assumptions;
    cfg.n_assumptions = 2;
    cfg.quick_budget_s = 30;
    cfg.thorough_budget_s = 400;
    return pmc_main(argc, argv, &cfg, specs, 3);
}
