// C10: work runs where it was sent — scheduler, pool and hint placement.  pmc-rt.
#include "rt_common.h"
#include <pika/runtime/thread_pool_helpers.hpp>
#include <pika/executors/std_thread_scheduler.hpp>
#include <pika/synchronization/event.hpp>
#include <pika/thread.hpp>
#include <pika/threading_base/thread_num_tss.hpp>
#include <string>
#include <thread>

namespace ex = rt::ex;
struct Where { std::string pool; int local_worker = -1; bool is_task = false; bool in_submit = false; std::thread::id os; int seen = 0; };
static thread_local int tl_in_submit = 0;
static Where here()
{
    Where w;
    w.is_task = pika::threads::detail::get_self_id() != pika::threads::detail::invalid_thread_id;
    w.in_submit = tl_in_submit != 0;
    w.os = std::this_thread::get_id();
    w.seen = 1;
    if (w.is_task)
    {
        auto* td = pika::threads::detail::get_self_id_data();
        auto* pool = td->get_scheduler_base()->get_parent_pool();
        w.pool = pool->get_pool_name();
        w.local_worker = (int) pika::get_local_worker_thread_num();
    }
    return w;
}
static void expect_on(Where const& w, const char* pool, const char* what)
{
    PMC_ASSERT(w.seen, "not-run", "%s did not run", what);
    PMC_ASSERT(w.is_task, "not-a-task", "%s did not run as a pika task", what);
    PMC_ASSERT(!w.in_submit, "ran-inline", "%s ran inside the call that submitted it", what);
    PMC_ASSERT(w.pool == pool, "wrong-pool", "%s ran on pool '%s', it was sent to '%s'", what, w.pool.c_str(), pool);
}
struct Submit { Submit() { ++tl_in_submit; } ~Submit() { --tl_in_submit; } };

static void two_pools(pika::resource::partitioner& rp, pika::program_options::variables_map const&)
{
    rp.create_thread_pool("aux", pika::resource::scheduling_policy::local_priority_fifo);
    int count = 0;
    for (auto const& d : rp.sockets())
        for (auto const& c : d.cores())
            for (auto const& p : c.pus())
                if (count++ == 0) rp.add_resource(p, "aux");
}

// pipelines across two pools: default (2 workers) + aux (1 worker)
static void pool_prog()
{
    int form = pmc_choose(5, 0);
    int from_task = pmc_choose(2, 0);
    static Where w1, w2, w3, wb[3];
    w1 = w2 = w3 = Where{};
    for (auto& x : wb) x = Where{};
    static int done;
    done = 0;
    rt::config c;
    c.workers = 3;
    c.rp_callback = &two_pools;
    rt::start(c);
    auto body = [&, form] {
        auto sd = ex::thread_pool_scheduler{&pika::resource::get_thread_pool("default")};
        auto sa = ex::thread_pool_scheduler{&pika::resource::get_thread_pool("aux")};
        Submit guard;
        switch (form)
        {
        case 0:
            ex::start_detached(ex::schedule(sd) | ex::then([] { w1 = here(); }) | ex::continues_on(sa) | ex::then([] { w2 = here(); }) | ex::continues_on(sd) | ex::then([] { w3 = here(); done = 1; pmc_progress(); }));
            break;
        case 1:
            ex::execute(sa, [] { w1 = here(); done = 1; pmc_progress(); });
            break;
        case 2:
            ex::start_detached(ex::transfer_just(sa, 3) | ex::then([](int) { w1 = here(); }) | ex::continues_on(sd) | ex::then([] { w2 = here(); done = 1; pmc_progress(); }));
            break;
        case 3:
            ex::start_detached(ex::schedule(sa) | ex::bulk(3, [](int i) { wb[i] = here(); }) | ex::then([] { w1 = here(); done = 1; pmc_progress(); }));
            break;
        case 4:
            ex::start_detached(ex::schedule(ex::with_priority(sa, pika::execution::thread_priority::high)) | ex::then([] { w1 = here(); }) | ex::continues_on(ex::with_hint(sd, pika::execution::thread_schedule_hint(1))) | ex::then([] { w2 = here(); done = 1; pmc_progress(); }));
            break;
        }
    };
    if (from_task) rt::spawn(body);
    else body();
    rt::stop();
    PMC_ASSERT(done == 1, "not-run", "pipeline %d did not complete", form);
    switch (form)
    {
    case 0: expect_on(w1, "default", "then after schedule(default)"); expect_on(w2, "aux", "then after continues_on(aux)"); expect_on(w3, "default", "then after continues_on(default)"); break;
    case 1: expect_on(w1, "aux", "execute(aux, f)"); break;
    case 2: expect_on(w1, "aux", "then after transfer_just(aux, v)"); expect_on(w2, "default", "then after continues_on(default)"); break;
    case 3: for (int i = 0; i < 3; ++i) expect_on(wb[i], "aux", "bulk(schedule(aux), 3, f) element"); expect_on(w1, "aux", "then after bulk on aux"); break;
    case 4: expect_on(w1, "aux", "then after schedule(aux, high priority)"); expect_on(w2, "default", "then after continues_on(default with hint)"); break;
    }
    pmc_outcome("form=%d from_task=%d", form, from_task);
}

// static (non-stealing) policies: a hinted normal-priority task runs every phase on the hinted worker
template <int POLICY>
static void hint_prog()
{
    static const char* pol[] = {"static", "static-priority"};
    int h = pmc_choose(2, 0);
    int waker_on = pmc_choose(2, 0);    // the task that wakes the hinted one is hinted to the same / the other worker
    static int phases[8];
    static int nph, finished;
    nph = finished = 0;
    auto& ev = *new pika::experimental::event;
    rt::config c;
    c.workers = 2;
    c.scheduler = pol[POLICY];
    rt::start(c);
    auto sched = ex::thread_pool_scheduler{};
    pmc_watch(&ev, sizeof ev, "event");
    // 1: before the hinted work is created a task switches stealing off and on again for the pool's scheduler (the
    // usual pair around a phase that must not be disturbed); a static policy stays non-stealing whatever is asked
    int toggle = pmc_choose(2, 0);
    if (toggle)
        rt::tt::sync_wait(ex::schedule(sched) | ex::then([] {
            auto* sb = pika::threads::detail::get_self_id_data()->get_scheduler_base();
            sb->remove_scheduler_mode(pika::threads::scheduler_mode::enable_stealing);
            sb->add_scheduler_mode(pika::threads::scheduler_mode::enable_stealing);
        }));
    ex::execute(ex::with_hint(sched, pika::execution::thread_schedule_hint(h)), [&] {
        rt::watch_self("hinted");
        phases[nph++] = (int) pika::get_local_worker_thread_num();
        pika::this_thread::yield();
        phases[nph++] = (int) pika::get_local_worker_thread_num();
        ev.wait();    // suspended, resumed by the waker (possibly while still active)
        phases[nph++] = (int) pika::get_local_worker_thread_num();
        pika::this_thread::yield();
        phases[nph++] = (int) pika::get_local_worker_thread_num();
        ++finished;
    });
    ex::execute(ex::with_hint(sched, pika::execution::thread_schedule_hint(waker_on ? h : 1 - h)), [&] {
        rt::watch_self("waker");
        pika::this_thread::yield();
        ev.set();
        ++finished;
    });
    // bulk sent to the hinted scheduler: the tasks bulk creates for its chunks inherit the hint
    static int bulk_worker[3];
    for (auto& w : bulk_worker) w = -1;
    ex::start_detached(ex::schedule(ex::with_hint(sched, pika::execution::thread_schedule_hint(h))) | ex::bulk(3, [](int i) { bulk_worker[i] = (int) pika::get_local_worker_thread_num(); pika::this_thread::yield(); }));
    rt::stop();
    PMC_ASSERT(finished == 2 && nph == 4, "not-run", "hinted task did not run all phases (%d)", nph);
    for (int i = 0; i < nph; ++i)
        PMC_ASSERT(phases[i] == h, "wrong-worker", "phase %d of the task hinted to worker %d ran on worker %d (policy %s)", i, h, phases[i], pol[POLICY]);
    for (int i = 0; i < 3; ++i)
        PMC_ASSERT(bulk_worker[i] == h, "wrong-worker", "element %d of bulk on a scheduler hinted to worker %d ran on worker %d (policy %s)", i, h, bulk_worker[i], pol[POLICY]);
    pmc_outcome("h=%d toggle=%d", h, toggle);
}

// the same on a pool that is not the first one (its workers' global numbers differ from their local
// numbers): default = 1 worker, "p" = 2 workers with a static policy
template <int POLICY>
static void second_pool(pika::resource::partitioner& rp, pika::program_options::variables_map const&)
{
    rp.create_thread_pool("p", POLICY == 0 ? pika::resource::scheduling_policy::static_ : pika::resource::scheduling_policy::static_priority);
    int count = 0;
    for (auto const& d : rp.sockets())
        for (auto const& c : d.cores())
            for (auto const& p : c.pus())
                if (count++ >= 1) rp.add_resource(p, "p");
}
template <int POLICY>
static void hint_second_pool_prog()
{
    int h = pmc_choose(2, 0);
    int waker_where = pmc_choose(2, 0);    // 0: waker on the default pool, 1: on the other worker of "p"
    static int phases[8];
    static std::string pools[8];
    static int nph, finished;
    nph = finished = 0;
    auto& ev = *new pika::experimental::event;
    rt::config c;
    c.workers = 3;
    c.rp_callback = &second_pool<POLICY>;
    rt::start(c);
    auto sp = ex::thread_pool_scheduler{&pika::resource::get_thread_pool("p")};
    auto sd = ex::thread_pool_scheduler{&pika::resource::get_thread_pool("default")};
    pmc_watch(&ev, sizeof ev, "event");
    auto mark = [&] { Where w = here(); pools[nph] = w.pool; phases[nph++] = w.local_worker; };
    ex::execute(ex::with_hint(sp, pika::execution::thread_schedule_hint(h)), [&] {
        rt::watch_self("hinted");
        mark();
        pika::this_thread::yield();
        mark();
        ev.wait();
        mark();
        pika::this_thread::yield();
        mark();
        ++finished;
    });
    auto waker = [&] {
        rt::watch_self("waker");
        pika::this_thread::yield();
        ev.set();
        ++finished;
    };
    if (waker_where == 0) ex::execute(sd, waker);
    else ex::execute(ex::with_hint(sp, pika::execution::thread_schedule_hint(1 - h)), waker);
    rt::stop();
    PMC_ASSERT(finished == 2 && nph == 4, "not-run", "hinted task did not run all phases (%d)", nph);
    for (int i = 0; i < nph; ++i)
    {
        PMC_ASSERT(pools[i] == "p", "wrong-pool", "phase %d of a task sent to pool 'p' ran on pool '%s'", i, pools[i].c_str());
        PMC_ASSERT(phases[i] == h, "wrong-worker", "phase %d of the task hinted to worker %d of pool 'p' ran on its worker %d", i, h, phases[i]);
    }
    pmc_outcome("h=%d", h);
}

// yield_to across pools: a task on the default pool hands its time slice to a task of pool "aux" that is
// pending in an aux queue; that task must still run every phase on a worker of "aux"
static void yield_to_prog()
{
    static Where ph[8];
    for (auto& x : ph) x = Where{};
    static int nph, finished, target_ready;
    static pika::thread::id target_id;
    nph = finished = target_ready = 0;
    target_id = pika::thread::id{};
    int nyield_to = 1 + pmc_choose(2, 0);
    rt::config c;
    c.workers = 3;
    c.rp_callback = &two_pools;
    rt::start(c);
    auto sd = ex::thread_pool_scheduler{&pika::resource::get_thread_pool("default")};
    auto sa = ex::thread_pool_scheduler{&pika::resource::get_thread_pool("aux")};
    ex::execute(sa, [&] {
        rt::watch_self("target");
        target_id = pika::this_thread::get_id();
        target_ready = 1;
        for (int i = 0; i < 4; ++i)
        {
            ph[nph] = here();
            // checked at once: on the unchanged tree the run ends in a known finding (the target is
            // enqueued a second time and cleaned up twice after it terminated) before the final checks
            if (ph[nph].pool != "aux") pmc_fail("wrong-pool", "phase %d of a task of pool 'aux' that another pool's task yielded to ran on pool '%s'", nph, ph[nph].pool.c_str());
            ++nph;
            pika::this_thread::yield();    // pending in an aux queue between the phases
        }
        ++finished;
    });
    ex::execute(sd, [&, nyield_to] {
        rt::watch_self("yielder");
        int guard = 0;
        while (!target_ready && ++guard < 300) pika::this_thread::yield();
        for (int i = 0; i < nyield_to; ++i) pika::this_thread::yield_to(target_id);
        ++finished;
    });
    rt::stop();
    PMC_ASSERT(finished == 2 && nph == 4, "not-run", "target ran %d of 4 phases, %d of 2 tasks finished", nph, finished);
    for (int i = 0; i < nph; ++i) expect_on(ph[i], "aux", "a phase of a task of pool 'aux' that another pool's task yielded to");
    pmc_outcome("yield_to=%d", nyield_to);
}

// std_thread_scheduler: a fresh non-pika thread
static void std_thread_prog()
{
    static Where w;
    w = Where{};
    static int done;
    done = 0;
    std::thread::id main_id = std::this_thread::get_id();
    rt::start();
    {
        Submit guard;
        ex::start_detached(ex::schedule(ex::std_thread_scheduler{}) | ex::then([] { w = here(); done = 1; pmc_progress(); }));
    }
    int guard = 0;
    while (!done && ++guard < 3000) sched_yield();
    rt::stop();
    PMC_ASSERT(done && w.seen, "not-run", "std_thread_scheduler work did not run");
    PMC_ASSERT(!w.is_task, "std-thread-is-task", "std_thread_scheduler work ran as a pika task");
    PMC_ASSERT(w.os != main_id && !w.in_submit, "ran-inline", "std_thread_scheduler work ran inside the submitting call / on the submitting thread");
    pmc_outcome("ok");
}

int main(int argc, char** argv)
{
    static const char* sites = "set_thread_state|set_active_state|schedule_thread|create_thread|thread_pool_scheduler|schedule_from|scheduling_loop|select_active_pu";
    static const char* focus = "F-site (rmw, cas): set_thread_state/set_active_state, schedule_thread/create_thread of the schedulers, thread_pool_scheduler, schedule_from, scheduling_loop; F-addr: hinted task / waker state words and the event";
    static const pmc_spec specs[] = {
        {"two_pools", pool_prog, 1, 2, 0.25, 0.25, 1, focus, sites, "rc"},
        {"hint_static", hint_prog<0>, 1, 2, 0.2, 0.2, 1, focus, sites, "rc"},
        {"hint_static_priority", hint_prog<1>, 1, 2, 0.2, 0.15, 1, focus, sites, "rc"},
        {"std_thread_scheduler", std_thread_prog, 1, 2, 0.1, 0.1, 1, focus, sites, "rc"},
        {"yield_to_other_pool", yield_to_prog, 0, 1, 0.05, 0.05, 0, focus, sites, "rc"},
        {"hint_second_pool_static", hint_second_pool_prog<0>, 1, 2, 0.15, 0.15, 1, focus, sites, "rc"},
        {"hint_second_pool_static_priority", hint_second_pool_prog<1>, 0, 1, 0.05, 0.1, 1, focus, sites, "rc"},
    };
    static const char* assumptions[] = {"sequentially consistent interleavings only", "pool layouts default(2)+aux(1) and default(1)+p(2, static policies); static and static-priority policies with 2 workers"};
    pmc_config cfg{};
    cfg.property_id = "C10";
    cfg.rule = "pipelines over two pools {schedule/then/continues_on, execute, transfer_just, bulk, priorities, hints} x submitter inside/outside the runtime; hinted task with yields and a suspension on static policies (single pool and second pool) x hint x waker placement (data choices) x all schedules within the deviation bound";
    cfg.assumptions = assumptions;
    cfg.n_assumptions = 2;
    cfg.warmup = rt::warmup;
    cfg.quick_budget_s = 100;
    cfg.thorough_budget_s = 900;
    return pmc_main(argc, argv, &cfg, specs, sizeof specs / sizeof specs[0]);
}
