#!/bin/bash
# One-time setup after a fresh restore (offline): build libpmcrt, the instrumented pika libraries,
# the site tables and all harness binaries. Checks rebuild incrementally afterwards.
set -e
cd "$(dirname "$0")"
mkdir -p build evidence replays
./scripts/build_rt.sh
./scripts/build_pika.sh "$PWD/build/pika-mc"
python3 - <<'PY'
import sys, subprocess, os
sys.path.insert(0, '.')
from checks import CHECKS
V = os.getcwd()
need_mpi = False
for pid, spec in CHECKS.items():
    for p in spec['parts']:
        if p.get('pika_build') == 'pika-mpi-mc': need_mpi = True
if need_mpi:
    subprocess.run([f'{V}/scripts/build_pika.sh', f'{V}/build/pika-mpi-mc', 'mpi'], check=True)
targets = {}
for pid, spec in CHECKS.items():
    for p in spec['parts']:
        if p.get('kind') == 'script': continue
        b = p.get('pika_build', 'pika-mc')
        out = f"{V}/build/" + ('h' if b == 'pika-mc' else 'h-' + b)
        key = (b, out, p.get('extra', ''), p.get('extralibs', ''))
        targets.setdefault(key, []).append(f"{out}/{p['bin']}")
for (b, out, extra, extralibs), ts in targets.items():
    cmd = ['make', '-s', '-j16', '-C', f'{V}/harness', f'B={V}/build/{b}', f'OUT={out}']
    if extra: cmd.append('EXTRA=' + extra)
    if extralibs: cmd.append('EXTRALIBS=' + extralibs)
    subprocess.run(cmd + sorted(set(ts)), check=True)
PY
echo "setup done"
