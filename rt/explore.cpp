// pmc explorer: iterative deviation-bounded DFS over choice sequences, one forked process per
// execution (16 slot processes fork the executions), replay confirmation, evidence part writer.
#ifndef _GNU_SOURCE
#define _GNU_SOURCE
#endif
#include "pmc.h"
#include "pmc_internal.h"

#include <errno.h>
#include <link.h>
#include <regex.h>
#include <limits.h>
#include <fcntl.h>
#include <poll.h>
#include <signal.h>
#include <stdio.h>
#include <stdlib.h>
#include <string.h>
#include <sys/mman.h>
#include <sys/personality.h>
#include <sys/prctl.h>
#include <sys/stat.h>
#include <sys/syscall.h>
#include <sys/wait.h>
#include <time.h>
#include <unistd.h>

#include <algorithm>
#include <map>
#include <set>
#include <string>
#include <unordered_set>
#include <memory>
#include <vector>

namespace {

double now_s()
{
    struct timespec ts;
    syscall(228 /* SYS_clock_gettime */, CLOCK_MONOTONIC, &ts);
    return ts.tv_sec + ts.tv_nsec * 1e-9;
}

struct Slot
{
    pid_t pid;
    int cmd_w;     // parent -> slot
    int res_r;     // slot -> parent
    pmc_exec_rec* rec;
    int busy;
    int item;      // index into inflight
};

struct Item
{
    std::vector<uint16_t> prefix, prefix_n;
    int cost = 0;
    int free_used = 0;    // non-default choices taken at blocking points (cost 0)
    int retries = 0;
    int confirm = 0;    // 1: confirmation re-run of a failing schedule
};

// Deferred frontier entries are kept compact: all alternatives found in one execution share that
// execution's choice vectors (O(L) memory per execution instead of O(L^2) for materialised prefixes).
static long g_frontier_bytes = 0;    // estimate of the memory held by deferred frontier entries
struct Base
{
    std::vector<uint16_t> c, n;
    long bytes = 0;
    ~Base() { g_frontier_bytes -= bytes; }
};
struct Lazy
{
    std::shared_ptr<const Base> base;    // null: `full` holds a materialised item (root, retries)
    uint32_t cut = 0;
    uint16_t alt = 0;
    uint8_t cost = 0;
    uint16_t free_used = 0;
    std::shared_ptr<Item> full;
    Item make() const
    {
        if (!base) return *full;
        Item it;
        it.prefix.assign(base->c.begin(), base->c.begin() + cut);
        it.prefix.push_back(alt);
        it.prefix_n.assign(base->n.begin(), base->n.begin() + cut + 1);
        it.cost = cost;
        it.free_used = free_used;
        return it;
    }
    static Lazy of(Item const& it)
    {
        Lazy l;
        l.full = std::make_shared<Item>(it);
        return l;
    }
};

const pmc_config* g_cfg;
const pmc_spec* g_specs;
int g_nspecs;
double g_exec_timeout = 20.0;

std::string jesc(const std::string& s)
{
    std::string o;
    for (unsigned char ch : s)
    {
        if (ch == '"') o += "\\\"";
        else if (ch == '\\') o += "\\\\";
        else if (ch == '\n') o += "\\n";
        else if (ch == '\t') o += "\\t";
        else if (ch < 0x20 || ch >= 0x7f) { char b[8]; snprintf(b, sizeof b, "\\u%04x", ch); o += b; }
        else o += (char) ch;
    }
    return o;
}

// ---------------------------------------------------------------------------------------------
// slot process: forks one child per execution
[[noreturn]] void slot_main(int cmd_r, int res_w, pmc_exec_rec* rec)
{
    prctl(PR_SET_PDEATHSIG, SIGKILL);
    sigset_t chld;
    sigemptyset(&chld);
    sigaddset(&chld, SIGCHLD);
    sigprocmask(SIG_BLOCK, &chld, nullptr);
    int errfd = memfd_create("pmc-stderr", 0);
    for (;;)
    {
        char cmd;
        ssize_t r = read(cmd_r, &cmd, 1);
        if (r <= 0) _exit(0);
        double t0 = now_s();
        if (errfd >= 0) { if (ftruncate(errfd, 0)) {} lseek(errfd, 0, SEEK_SET); }
        rec->done = 0;
        rec->outcome = OUT_NONE;
        rec->nchoices = 0;
        rec->msg[0] = 0;
        rec->fail_id[0] = 0;
        rec->signal_no = 0;
        pid_t c = fork();
        if (c == 0)
        {
            prctl(PR_SET_PDEATHSIG, SIGKILL);
            sigprocmask(SIG_UNBLOCK, &chld, nullptr);
            if (errfd >= 0) { dup2(errfd, 1); dup2(errfd, 2); }
            pmc_rt_begin(rec);
            g_specs[rec->spec_index].run();
            pmc_rt_end();
            pmc_cov_flush();
            _exit(0);
        }
        // The limit is on the CPU time the execution consumed (all its threads), so that a machine that is
        // busy with other work cannot turn a normal execution into a "timeout"; an execution that is blocked
        // outside the scheduler's control uses no CPU and is caught by a wall limit 15 times as long.
        double limit = g_exec_timeout * (rec->limit_mult > 1 ? rec->limit_mult : 1);
        int timed_out = 0;
        int st = 0;
        double wall_limit = limit * 15 < 300 ? limit * 15 : (limit * 2 > 300 ? limit * 2 : 300);
        double tend = now_s() + wall_limit;
        long const hz = sysconf(_SC_CLK_TCK);
        char statp[64];
        snprintf(statp, sizeof statp, "/proc/%d/stat", (int) c);
        for (;;)
        {
            pid_t w = waitpid(c, &st, WNOHANG);
            if (w == c) break;
            double left = tend - now_s();
            double cpu = 0;
            {
                char b[1024];
                int fd = open(statp, O_RDONLY);
                if (fd >= 0)
                {
                    ssize_t k = read(fd, b, sizeof b - 1);
                    close(fd);
                    if (k > 0)
                    {
                        b[k] = 0;
                        char* q = strrchr(b, ')');    // fields after the command name: state ppid ... utime(14) stime(15)
                        unsigned long ut = 0, stt = 0;
                        if (q && sscanf(q + 2, "%*c %*d %*d %*d %*d %*d %*u %*u %*u %*u %*u %lu %lu", &ut, &stt) == 2) cpu = (double) (ut + stt) / (double) hz;
                    }
                }
            }
            if (left <= 0 || cpu > limit)
            {
                timed_out = 1;
                kill(c, SIGKILL);
                waitpid(c, &st, 0);
                break;
            }
            double nap = left < 0.25 ? left : 0.25;
            struct timespec ts;
            ts.tv_sec = (time_t) nap;
            ts.tv_nsec = (long) ((nap - (double) ts.tv_sec) * 1e9);
            sigtimedwait(&chld, nullptr, &ts);
        }
        if (!rec->done)
        {
            if (timed_out)
            {
                rec->outcome = OUT_TIMEOUT;
                snprintf(rec->fail_id, sizeof rec->fail_id, "timeout");
                snprintf(rec->msg, sizeof rec->msg, "execution exceeded %.0f s of CPU time (or its wall limit)", limit);
            }
            else
            {
                rec->outcome = OUT_CRASH;
                rec->signal_no = WIFSIGNALED(st) ? WTERMSIG(st) : 0;
                if (WIFSIGNALED(st))
                    snprintf(rec->fail_id, sizeof rec->fail_id, "crash-signal-%d", WTERMSIG(st));
                else
                    snprintf(rec->fail_id, sizeof rec->fail_id, "exit-%d", WEXITSTATUS(st));
                size_t len = 0;
                if (errfd >= 0)
                {
                    off_t sz = lseek(errfd, 0, SEEK_END);
                    off_t from = sz > 1500 ? sz - 1500 : 0;
                    lseek(errfd, from, SEEK_SET);
                    ssize_t k = read(errfd, rec->msg, sizeof rec->msg - 1);
                    len = k > 0 ? (size_t) k : 0;
                }
                rec->msg[len] = 0;
                // a pika assertion / exception report that ended the process: name the assertion in
                // the key, so that a known finding about one assertion cannot hide another one
                if (!WIFSIGNALED(st))
                {
                    const char* a = strstr(rec->msg, "Assertion '");
                    if (a)
                    {
                        a += 11;
                        char id[64];
                        int k = 0;
                        for (; *a && *a != '\'' && k < 56; ++a)
                            if ((*a >= 'a' && *a <= 'z') || (*a >= 'A' && *a <= 'Z') || (*a >= '0' && *a <= '9') || *a == '_') id[k++] = *a;
                            else if (k && id[k - 1] != '-') id[k++] = '-';
                        id[k] = 0;
                        snprintf(rec->fail_id, sizeof rec->fail_id, "assert-%s", id);
                    }
                }
            }
        }
        rec->wall_s = now_s() - t0;
        char ok = 1;
        if (write(res_w, &ok, 1) != 1) _exit(0);
    }
}

struct SpecStats
{
    std::string name;
    long execs = 0, transitions = 0, with_alts = 0, ok = 0;
    long max_choices = 0, sum_choices = 0, max_ops = 0, max_threads = 0;
    long divergences = 0, inconclusive = 0, overflow = 0;
    int bound_target = 0, bound_completed = -1;
    long frontier_left = 0;
    bool exhaustive = false;
    std::unordered_set<uint64_t> hashes, nontrivial, outcomes;
    std::map<std::string, long> known_matched;
    std::vector<std::string> samples;
    std::vector<std::string> outcome_samples;
    double wall = 0;
    long execs_at_bound[8] = {0};
    std::string selftest = "not-run";
};

std::set<std::string> g_known;
int g_jobs = 16;
std::vector<Slot> g_slots;
std::string g_replay_dir = "replays";
std::string g_tier = "quick";
bool g_verbose = false;
FILE* g_dump_outcomes = nullptr;    // --dump-outcomes: every distinct outcome string, one per line

void start_slots()
{
    g_slots.resize(g_jobs);
    // identical address-space layout in every slot: map all records before the first fork
    for (int i = 0; i < g_jobs; ++i)
    {
        g_slots[i].rec = (pmc_exec_rec*) mmap(nullptr, sizeof(pmc_exec_rec), PROT_READ | PROT_WRITE,
            MAP_SHARED | MAP_ANONYMOUS, -1, 0);
        if (g_slots[i].rec == MAP_FAILED) { perror("mmap"); exit(2); }
    }
    for (int i = 0; i < g_jobs; ++i)
    {
        Slot& s = g_slots[i];
        int a[2], b[2];
        if (pipe(a) || pipe(b)) { perror("pipe"); exit(2); }
        pid_t p = fork();
        if (p == 0)
        {
            close(a[1]);
            close(b[0]);
            for (int j = 0; j < i; ++j) { close(g_slots[j].cmd_w); close(g_slots[j].res_r); }
            slot_main(a[0], b[1], s.rec);
        }
        close(a[0]);
        close(b[1]);
        s.pid = p;
        s.cmd_w = a[1];
        s.res_r = b[0];
        s.busy = 0;
    }
}
void stop_slots()
{
    for (auto& s : g_slots)
    {
        close(s.cmd_w);
        close(s.res_r);
        kill(s.pid, SIGKILL);
        waitpid(s.pid, nullptr, 0);
        munmap(s.rec, sizeof(pmc_exec_rec));
    }
    g_slots.clear();
}

void submit(Slot& s, int spec, const Item& it, int trace, int mult)
{
    pmc_exec_rec* r = s.rec;
    r->spec_index = spec;
    r->prefix_len = (int) it.prefix.size();
    memcpy(r->prefix, it.prefix.data(), it.prefix.size() * 2);
    if (it.prefix_n.size() == it.prefix.size()) memcpy(r->prefix_n, it.prefix_n.data(), it.prefix.size() * 2);
    else memset(r->prefix_n, 0, it.prefix.size() * 2);
    r->trace_mode = trace;
    r->limit_mult = mult;
    char c = 1;
    if (write(s.cmd_w, &c, 1) != 1) { perror("slot write"); exit(2); }
    s.busy = 1;
}
// run one item synchronously on slot 0 (used for confirmation / replay / self-test)
void run_sync(int spec, const Item& it, int trace, int mult)
{
    Slot& s = g_slots[0];
    submit(s, spec, it, trace, mult);
    char c;
    if (read(s.res_r, &c, 1) != 1) { fprintf(stderr, "pmc: slot died\n"); exit(2); }
    s.busy = 0;
}

std::string choices_str(const pmc_exec_rec* r, int maxn = 1 << 30)
{
    std::string s = "[";
    for (int i = 0; i < r->nchoices && i < maxn; ++i)
    {
        if (i) s += ",";
        s += std::to_string(r->c[i]);
    }
    return s + "]";
}
std::string outcome_name(int o)
{
    static const char* n[] = {"none", "ok", "assert", "deadlock", "stuck", "diverged", "crash", "timeout", "harness-error"};
    return n[o];
}

struct Violation
{
    bool found = false;
    std::string spec, key, fail_id, msg, replay_path, outcome;
};

std::string write_replay(const pmc_spec& sp, const pmc_exec_rec* r, const std::string& key)
{
    mkdir(g_replay_dir.c_str(), 0755);
    uint64_t h = 1469598103934665603ull;
    for (int i = 0; i < r->nchoices; ++i) { h ^= r->c[i] + 1; h *= 1099511628211ull; }
    char path[512];
    snprintf(path, sizeof path, "%s/%s-%s-%016llx.json", g_replay_dir.c_str(), g_cfg->property_id,
        sp.name, (unsigned long long) h);
    FILE* f = fopen(path, "w");
    if (!f) return path;
    fprintf(f, "{\n \"property\": \"%s\",\n \"spec\": \"%s\",\n \"key\": \"%s\",\n \"outcome\": \"%s\",\n",
        g_cfg->property_id, sp.name, jesc(key).c_str(), outcome_name(r->outcome).c_str());
    fprintf(f, " \"fail_id\": \"%s\",\n \"msg\": \"%s\",\n", jesc(r->fail_id).c_str(), jesc(r->msg).c_str());
    fprintf(f, " \"choices\": %s,\n", choices_str(r).c_str());
    int dev = 0;
    for (int i = 0; i < r->nchoices; ++i) if (r->c[i]) dev += r->cost[i];
    fprintf(f, " \"deviations\": %d,\n \"event_hash\": \"%016llx\",\n", dev, (unsigned long long) r->hash);
    fprintf(f, " \"how_to_replay\": \"./check %s --replay %s\",\n", g_cfg->property_id, path);
    std::string tr(r->trace, r->trace + r->trace_len);
    fprintf(f, " \"trace\": \"%s\"\n}\n", jesc(tr).c_str());
    fclose(f);
    return path;
}

// explore one spec up to `bound`; returns violation info
void explore_spec(int si, int bound, double budget, SpecStats& st, Violation& viol)
{
    const pmc_spec& sp = g_specs[si];
    st.name = sp.name;
    st.bound_target = bound;
    double t0 = now_s(), deadline = t0 + budget;
    std::vector<std::vector<Lazy>> level(bound + 2);
    level[0].push_back(Lazy::of(Item{}));
    // memory cap of the deferred frontier (bytes, estimated); beyond it alternatives of a higher deviation
    // level than the one being explored are counted, not stored, and no further level is started
    long& frontier_bytes = g_frontier_bytes;
    long frontier_cap = 6L << 30;
    frontier_bytes = 0;
    if (const char* e = getenv("PMC_FRONTIER_CAP_MB")) frontier_cap = atol(e) * (1L << 20);
    long dropped = 0;
    std::vector<Item> inflight(g_slots.size());
    Item first_item, last_item;
    bool have_first = false;
    bool stop = false, out_of_time = false;
    std::vector<uint16_t> first_full, last_full;

    auto process = [&](Slot& s, Item& it, int k) {
        pmc_exec_rec* r = s.rec;
        ++st.execs;
        ++st.execs_at_bound[std::min(k, 7)];
        st.transitions += r->nchoices;
        st.sum_choices += r->nchoices;
        st.max_choices = std::max<long>(st.max_choices, r->nchoices);
        st.max_ops = std::max<long>(st.max_ops, r->ops);
        st.max_threads = std::max<long>(st.max_threads, r->threads);
        if (r->overflow) ++st.overflow;
        bool has_alt = false;
        for (int i = (int) it.prefix.size(); i < r->nchoices; ++i)
            if (r->n[i] > 1) { has_alt = true; break; }
        if (has_alt || !it.prefix.empty()) ++st.with_alts;
        if (r->outcome == OUT_DIVERGED)
        {
            ++st.divergences;
            if (it.retries < 2) { Item again = it; ++again.retries; level[k].push_back(Lazy::of(again)); }
            else ++st.inconclusive;
            return;
        }
        if (r->outcome == OUT_HARNESS_ERROR)
        {
            fprintf(stderr, "pmc: harness error in %s: %s %s\n", sp.name, r->fail_id, r->msg);
            viol.found = true;
            viol.outcome = "harness-error";
            stop = true;
            return;
        }
        st.hashes.insert(r->hash);
        if (r->focus_switches > 0 || r->switches > 1) st.nontrivial.insert(r->hash);
        if (r->outcome_hash && st.outcomes.insert(r->outcome_hash).second)
        {
            if (st.outcome_samples.size() < 6) st.outcome_samples.push_back(r->outcome_str);
            if (g_dump_outcomes) fprintf(g_dump_outcomes, "%s\t%s\n", sp.name, r->outcome_str);
        }
        if (st.samples.size() < 3 && (st.execs == 1 || (r->focus_switches > 0 && st.execs % 7 == 3)))
            st.samples.push_back(std::string("{\"spec\":\"") + sp.name + "\",\"choices\":" + choices_str(r, 64) +
                ",\"threads\":" + std::to_string(r->threads) + ",\"focused_points\":" + std::to_string(r->points) +
                ",\"atomic_ops\":" + std::to_string(r->ops) + ",\"switches\":" + std::to_string(r->switches) +
                ",\"outcome\":\"" + jesc(r->outcome_str) + "\"}");
        if (!have_first) { have_first = true; first_full.assign(r->c, r->c + r->nchoices); }
        last_full.assign(r->c, r->c + r->nchoices);

        if (r->outcome != OUT_OK)
        {
            std::string key = std::string(sp.name) + "/" + r->fail_id;
            if (g_known.count(key)) { ++st.known_matched[key]; }
            else
            {
                // confirm: replay the complete schedule with tracing (and relaxed limits)
                Item full;
                full.prefix.assign(r->c, r->c + r->nchoices);
                full.prefix_n.assign(r->n, r->n + r->nchoices);
                int first_outcome = r->outcome;
                std::string first_id = r->fail_id;
                std::string first_msg = r->msg;
                int mult = (first_outcome == OUT_STUCK || first_outcome == OUT_TIMEOUT) ? 8 : 1;
                // wait until slot 0 is free: we are called from the completion handler, so run the
                // confirmation on this very slot
                Slot& s0 = s;
                submit(s0, si, full, 1, mult);
                char c;
                if (read(s0.res_r, &c, 1) != 1) { fprintf(stderr, "pmc: slot died\n"); exit(2); }
                s0.busy = 0;
                pmc_exec_rec* r2 = s0.rec;
                if (r2->outcome == OUT_DIVERGED && mult > 1)
                {
                    // relaxed limits move the quantum expiries of a long (livelocked) execution: replay it
                    // once more exactly as it ran
                    submit(s0, si, full, 1, 1);
                    if (read(s0.res_r, &c, 1) != 1) { fprintf(stderr, "pmc: slot died\n"); exit(2); }
                    s0.busy = 0;
                    r2 = s0.rec;
                }
                if (r2->outcome != OUT_OK && r2->outcome != OUT_DIVERGED && first_id == r2->fail_id)
                {
                    viol.found = true;
                    viol.spec = sp.name;
                    viol.key = key;
                    viol.fail_id = r2->fail_id;
                    viol.msg = r2->msg;
                    viol.outcome = outcome_name(r2->outcome);
                    viol.replay_path = write_replay(sp, r2, key);
                    stop = true;
                    return;
                }
                ++st.inconclusive;
                if (st.inconclusive <= 3)
                    fprintf(stderr, "pmc: %s: outcome %s (%s) did not reproduce on replay (got %s %s); first message: %.600s\n", sp.name,
                        outcome_name(first_outcome).c_str(), first_id.c_str(), outcome_name(r2->outcome).c_str(), r2->fail_id, first_msg.c_str());
                return;
            }
        }
        else
            ++st.ok;
        // expand
        std::shared_ptr<Base> base;
        for (int i = (int) it.prefix.size(); i < r->nchoices; ++i)
        {
            int nc = it.cost + r->cost[i];
            if (nc > bound) continue;
            int nf = it.free_used + ((r->kind[i] == CK_BLOCK && r->cost[i] == 0) ? 1 : 0);
            if (g_cfg->free_block_bound > 0 && nf > g_cfg->free_block_bound) continue;
            if (r->n[i] < 2) continue;
            if (nc > k && frontier_bytes > frontier_cap) { dropped += r->n[i] - 1; continue; }
            if (!base)
            {
                base = std::make_shared<Base>();
                base->c.assign(r->c, r->c + r->nchoices);
                base->n.assign(r->n, r->n + r->nchoices);
                base->bytes = 4L * r->nchoices + 96;
                frontier_bytes += base->bytes;
            }
            for (int alt = 1; alt < r->n[i]; ++alt)
            {
                Lazy ni;
                ni.base = base;
                ni.cut = (uint32_t) i;
                ni.alt = (uint16_t) alt;
                ni.cost = (uint8_t) nc;
                ni.free_used = (uint16_t) nf;
                level[nc].push_back(std::move(ni));
                frontier_bytes += sizeof(Lazy);
            }
        }
    };

    for (int k = 0; k <= bound && !stop; ++k)
    {
        // level[k] is used as a stack (DFS); items of higher cost are deferred
        for (;;)
        {
            if (!out_of_time && now_s() > deadline) out_of_time = true;
            bool any_busy = false;
            for (size_t i = 0; i < g_slots.size(); ++i)
            {
                Slot& s = g_slots[i];
                if (!s.busy && !level[k].empty() && !stop && !out_of_time)
                {
                    inflight[i] = level[k].back().make();
                    level[k].pop_back();
                    frontier_bytes -= sizeof(Lazy);
                    submit(s, si, inflight[i], 0, 1);
                }
                if (s.busy) any_busy = true;
            }
            if (!any_busy) break;
            std::vector<struct pollfd> pf(g_slots.size());
            for (size_t i = 0; i < g_slots.size(); ++i)
            {
                pf[i].fd = g_slots[i].busy ? g_slots[i].res_r : -1;
                pf[i].events = POLLIN;
                pf[i].revents = 0;
            }
            int pr = poll(pf.data(), pf.size(), 1000);
            if (pr <= 0) continue;
            for (size_t i = 0; i < g_slots.size(); ++i)
                if (pf[i].revents & (POLLIN | POLLHUP))
                {
                    char c;
                    if (read(g_slots[i].res_r, &c, 1) != 1) { fprintf(stderr, "pmc: slot %zu died\n", i); exit(2); }
                    g_slots[i].busy = 0;
                    process(g_slots[i], inflight[i], k);
                }
        }
        if (stop) break;
        if (out_of_time && !level[k].empty()) break;
        if (level[k].empty()) st.bound_completed = k;
        if (out_of_time) break;
        if (dropped) break;    // the next level is incomplete: do not start it
    }
    for (auto& l : level) st.frontier_left += (long) l.size();
    st.frontier_left += dropped;
    st.exhaustive = !stop && st.bound_completed == bound && st.inconclusive == 0 && st.overflow == 0;
    // replay self-test: first and last schedule twice, identical event hashes
    if (!stop && have_first)
    {
        bool okst = true;
        for (auto* full : {&first_full, &last_full})
        {
            Item it;
            it.prefix = *full;
            run_sync(si, it, 1, 1);
            uint64_t h1 = g_slots[0].rec->hash;
            int o1 = g_slots[0].rec->outcome;
            std::string tr1(g_slots[0].rec->trace, g_slots[0].rec->trace_len);
            run_sync(si, it, 1, 1);
            if (h1 != g_slots[0].rec->hash || o1 != g_slots[0].rec->outcome)
            {
                okst = false;
                if (getenv("PMC_DEBUG_SELFTEST"))
                {
                    FILE* f1 = fopen("/tmp/pmc_selftest_a.txt", "w");
                    fputs(tr1.c_str(), f1);
                    fclose(f1);
                    FILE* f2 = fopen("/tmp/pmc_selftest_b.txt", "w");
                    fwrite(g_slots[0].rec->trace, 1, g_slots[0].rec->trace_len, f2);
                    fclose(f2);
                }
            }
        }
        st.selftest = okst ? "passed" : "failed";
    }
    st.wall = now_s() - t0;
}

// ---------------------------------------------------------------------------------------------
// F-site tables
struct SiteRow { uintptr_t ra; std::string hook, chain, shortname; };
std::vector<SiteRow> g_sites;    // sorted by ra
std::vector<std::vector<uintptr_t>> g_spec_sites;
std::vector<long> g_spec_sites_matched;

int phdr_cb(struct dl_phdr_info* info, size_t, void*)
{
    char path[PATH_MAX];
    const char* name = info->dlpi_name;
    if (!name || !*name) name = "/proc/self/exe";
    if (!realpath(name, path)) return 0;
    std::string sf = std::string(path) + ".sites";
    FILE* f = fopen(sf.c_str(), "r");
    if (!f) return 0;
    char* line = nullptr;
    size_t cap = 0;
    while (getline(&line, &cap, f) > 0)
    {
        char* t1 = strchr(line, '\t');
        if (!t1) continue;
        char* t2 = strchr(t1 + 1, '\t');
        if (!t2) continue;
        *t1 = 0;
        *t2 = 0;
        SiteRow r;
        r.ra = (uintptr_t) info->dlpi_addr + strtoull(line, nullptr, 16);
        r.hook = t1 + 1;
        r.chain = t2 + 1;
        while (!r.chain.empty() && r.chain.back() == '\n') r.chain.pop_back();
        // short name: first frame that is not a std:: wrapper
        size_t p = 0;
        std::string sn;
        while (p < r.chain.size())
        {
            size_t e = r.chain.find(" <- ", p);
            std::string fr = r.chain.substr(p, e == std::string::npos ? std::string::npos : e - p);
            if (fr.compare(0, 5, "std::") != 0 && fr.find("boost::lockfree::detail::tagged") == std::string::npos) { sn = fr; break; }
            if (e == std::string::npos) { sn = fr; break; }
            p = e + 4;
        }
        if (sn.size() > 150) sn = sn.substr(0, 60) + "..." + sn.substr(sn.size() - 80);
        r.shortname = sn;
        g_sites.push_back(std::move(r));
    }
    free(line);
    fclose(f);
    return 0;
}
const char* site_namer(uintptr_t ra)
{
    size_t lo = 0, hi = g_sites.size();
    while (lo < hi)
    {
        size_t mid = (lo + hi) / 2;
        if (g_sites[mid].ra == ra) return g_sites[mid].shortname.c_str();
        if (g_sites[mid].ra < ra) lo = mid + 1;
        else hi = mid;
    }
    return nullptr;
}
void load_sites(const pmc_spec* specs, int nspecs)
{
    dl_iterate_phdr(phdr_cb, nullptr);
    std::sort(g_sites.begin(), g_sites.end(), [](const SiteRow& a, const SiteRow& b) { return a.ra < b.ra; });
    pmc_rt_set_site_namer(site_namer);
    g_spec_sites.resize(nspecs);
    g_spec_sites_matched.assign(nspecs, 0);
    for (int s = 0; s < nspecs; ++s)
    {
        bool have_sites = specs[s].focus_sites && *specs[s].focus_sites, have_plain = specs[s].focus_plain && *specs[s].focus_plain;
        if (!have_sites && !have_plain) continue;
        auto is_plain = [](const SiteRow& r) { return r.hook.compare(0, 13, "__tsan_atomic") != 0 && r.hook.compare(0, 6, "__tsan") == 0; };
        regex_t re, rp;
        if ((have_sites && regcomp(&re, specs[s].focus_sites, REG_EXTENDED | REG_NOSUB) != 0) || (have_plain && regcomp(&rp, specs[s].focus_plain, REG_EXTENDED | REG_NOSUB) != 0))
        {
            fprintf(stderr, "pmc: bad focus_sites regex for %s\n", specs[s].name);
            exit(2);
        }
        for (auto& r : g_sites)
        {
            // plain-access sites are opted in separately: an F-site regex that names a source file must not
            // turn every load and store of that file into a scheduling point
            if (is_plain(r)) { if (have_plain && regexec(&rp, r.chain.c_str(), 0, nullptr, 0) == 0) g_spec_sites[s].push_back(r.ra); }
            else if (have_sites && regexec(&re, r.chain.c_str(), 0, nullptr, 0) == 0) g_spec_sites[s].push_back(r.ra);
        }
        if (have_sites) regfree(&re);
        if (have_plain) regfree(&rp);
        unsigned mask = 0;
        const char* k = specs[s].focus_kinds;
        if (!k || !*k) mask = ~0u;
        else
            for (; *k; ++k) mask |= *k == 'l' ? 1u << 1 : *k == 's' ? 1u << 2 : *k == 'r' ? 1u << 3 : *k == 'c' ? 1u << 4 : 0;
        g_spec_sites_matched[s] = (long) g_spec_sites[s].size();
        pmc_rt_set_sites(s, g_spec_sites[s].data(), (int) g_spec_sites[s].size(), mask);
    }
}

std::string read_file(const char* p)
{
    FILE* f = fopen(p, "r");
    if (!f) return "";
    std::string s;
    char b[4096];
    size_t n;
    while ((n = fread(b, 1, sizeof b, f)) > 0) s.append(b, n);
    fclose(f);
    return s;
}
std::string json_str_field(const std::string& j, const char* key)
{
    std::string k = std::string("\"") + key + "\"";
    size_t p = j.find(k);
    if (p == std::string::npos) return "";
    p = j.find(':', p);
    p = j.find('"', p);
    size_t e = j.find('"', p + 1);
    return j.substr(p + 1, e - p - 1);
}
std::vector<uint16_t> json_int_array(const std::string& j, const char* key)
{
    std::vector<uint16_t> v;
    std::string k = std::string("\"") + key + "\"";
    size_t p = j.find(k);
    if (p == std::string::npos) return v;
    p = j.find('[', p);
    size_t e = j.find(']', p);
    std::string body = j.substr(p + 1, e - p - 1);
    const char* s = body.c_str();
    while (*s)
    {
        while (*s && (*s < '0' || *s > '9')) ++s;
        if (!*s) break;
        v.push_back((uint16_t) strtol(s, (char**) &s, 10));
    }
    return v;
}

}    // namespace

extern "C" int pmc_main(int argc, char** argv, const pmc_config* cfg, const pmc_spec* specs, int nspecs)
{
    g_cfg = cfg;
    g_specs = specs;
    g_nspecs = nspecs;
    // deterministic address space: switch ASLR off and re-exec once
    if (!getenv("PMC_NO_REEXEC"))
    {
        int pers = personality(0xffffffff);
        if (pers != -1 && !(pers & ADDR_NO_RANDOMIZE))
        {
            if (personality(pers | ADDR_NO_RANDOMIZE) != -1)
            {
                setenv("PMC_NO_REEXEC", "1", 1);
                setenv("MALLOC_ARENA_MAX", "1", 1);
                setenv("LD_BIND_NOW", "1", 1);    // children are forked fresh: resolve PLT entries once
                execv("/proc/self/exe", argv);
            }
        }
    }
    std::string replay, only, evidence, part = "main", choices_arg;
    int bound_override = -1;
    double budget_override = -1;
    for (int i = 1; i < argc; ++i)
    {
        std::string a = argv[i];
        auto next = [&]() -> std::string { return i + 1 < argc ? argv[++i] : ""; };
        if (a == "--tier") g_tier = next();
        else if (a == "--replay") replay = next();
        else if (a == "--jobs") g_jobs = atoi(next().c_str());
        else if (a == "--bound") bound_override = atoi(next().c_str());
        else if (a == "--budget") budget_override = atof(next().c_str());
        else if (a == "--only") only = next();
        else if (a == "--evidence") evidence = next();
        else if (a == "--part") part = next();
        else if (a == "--replay-dir") g_replay_dir = next();
        else if (a == "--known") { std::string k = next(); size_t p = 0; while (p < k.size()) { size_t e = k.find(',', p); if (e == std::string::npos) e = k.size(); if (e > p) g_known.insert(k.substr(p, e - p)); p = e + 1; } }
        else if (a == "--verbose") g_verbose = true;
        else if (a == "--dump-outcomes") { std::string f = next(); g_dump_outcomes = fopen(f.c_str(), "w"); }
        else if (a == "--choices") choices_arg = next();
        else if (a == "--list") { for (int s = 0; s < nspecs; ++s) printf("%s\n", specs[s].name); return 0; }
    }
    if (cfg->exec_timeout_s > 0) g_exec_timeout = cfg->exec_timeout_s;
    if (g_jobs < 1) g_jobs = 1;
    if (cfg->warmup) cfg->warmup();
    load_sites(specs, nspecs);
    fflush(stdout);
    fflush(stderr);

    if (!choices_arg.empty() || (replay.empty() && getenv("PMC_TRACE_FIRST")))
    {
        // debugging aid: run one schedule of --only <spec> given as a comma list, print its trace
        int si = 0;
        for (int s = 0; s < nspecs; ++s) if (only == specs[s].name) si = s;
        if (getenv("PMC_INPROC"))
        {
            // debugging under gdb: no fork at all
            pmc_exec_rec* rec = (pmc_exec_rec*) mmap(nullptr, sizeof(pmc_exec_rec), PROT_READ | PROT_WRITE, MAP_SHARED | MAP_ANONYMOUS, -1, 0);
            auto pf = json_int_array("\"c\":[" + choices_arg + "]", "c");
            rec->spec_index = si;
            rec->prefix_len = (int) pf.size();
            memcpy(rec->prefix, pf.data(), pf.size() * 2);
            rec->trace_mode = 0;
            rec->limit_mult = 1;
            pmc_rt_begin(rec);
            specs[si].run();
            pmc_rt_end();
        }
        g_jobs = 1;
        start_slots();
        Item it;
        it.prefix = json_int_array("\"c\":[" + choices_arg + "]", "c");
        run_sync(si, it, 1, 1);
        pmc_exec_rec* r = g_slots[0].rec;
        printf("%.*s", r->trace_len, r->trace);
        {
            long kc[8] = {0}, alts[8] = {0};
            for (int i = 0; i < r->nchoices; ++i) { kc[r->kind[i] & 7]++; alts[r->kind[i] & 7] += r->n[i] - 1; }
            printf("choice kinds (count/alternatives): focus %ld/%ld block %ld/%ld yield %ld/%ld data %ld/%ld\n", kc[1], alts[1], kc[2], alts[2], kc[3], alts[3], kc[4], alts[4]);
        }
        printf("observed outcome: %s\n", r->outcome_str);
        printf("run: spec=%s outcome=%s %s %s hash=%016llx choices=%s\n", specs[si].name, outcome_name(r->outcome).c_str(), r->fail_id, r->msg, (unsigned long long) r->hash, choices_str(r).c_str());
        stop_slots();
        return 0;
    }
    if (!replay.empty())
    {
        std::string j = read_file(replay.c_str());
        std::string spec = json_str_field(j, "spec");
        int si = -1;
        for (int s = 0; s < nspecs; ++s) if (spec == specs[s].name) si = s;
        if (si < 0) { fprintf(stderr, "replay: unknown spec '%s'\n", spec.c_str()); return 2; }
        g_jobs = 1;
        start_slots();
        Item it;
        it.prefix = json_int_array(j, "choices");
        run_sync(si, it, 1, 8);
        pmc_exec_rec* r = g_slots[0].rec;
        printf("%.*s", r->trace_len, r->trace);
        printf("replay: spec=%s outcome=%s %s %s\n", spec.c_str(), outcome_name(r->outcome).c_str(), r->fail_id, r->msg);
        int rc = r->outcome == OUT_OK ? 0 : 1;
        if (rc) printf("RAWVIOLATION property=%s key=%s/%s replay=%s\n", cfg->property_id, spec.c_str(), r->fail_id, replay.c_str());
        stop_slots();
        return rc;
    }

    bool thorough = g_tier == "thorough";
    double total_budget = budget_override > 0 ? budget_override : (thorough ? cfg->thorough_budget_s : cfg->quick_budget_s);
    if (total_budget <= 0) total_budget = thorough ? 1200 : 90;
    double share_sum = 0;
    std::vector<int> sel;
    for (int s = 0; s < nspecs; ++s)
    {
        if (!only.empty() && only != specs[s].name) continue;
        if (bound_override < 0 && (thorough ? specs[s].thorough_bound : specs[s].quick_bound) < 0) continue;    // not in this tier
        sel.push_back(s);
        double sh = thorough ? specs[s].thorough_share : specs[s].quick_share;
        share_sum += sh > 0 ? sh : 1.0;
    }
    double t_start = now_s();
    start_slots();
    std::vector<SpecStats> stats(sel.size());
    Violation viol;
    int rc = 0;
    double carry = 0;    // unused budget is carried over to later specs
    for (size_t q = 0; q < sel.size(); ++q)
    {
        int s = sel[q];
        double sh = thorough ? specs[s].thorough_share : specs[s].quick_share;
        double budget = total_budget * (sh > 0 ? sh : 1.0) / share_sum + carry;
        int bound = bound_override >= 0 ? bound_override : (thorough ? specs[s].thorough_bound : specs[s].quick_bound);
        explore_spec(s, bound, budget, stats[q], viol);
        carry = std::max(0.0, budget - stats[q].wall);
        SpecStats& st = stats[q];
        fprintf(stderr,
            "pmc[%s/%s] bound %d/%d completed, executions=%ld distinct_traces=%zu nontrivial=%zu outcomes=%zu "
            "max_choice_points=%ld max_ops=%ld threads<=%ld diverged=%ld inconclusive=%ld frontier_left=%ld selftest=%s wall=%.1fs\n",
            cfg->property_id, st.name.c_str(), st.bound_completed, st.bound_target, st.execs, st.hashes.size(),
            st.nontrivial.size(), st.outcomes.size(), st.max_choices, st.max_ops, st.max_threads, st.divergences,
            st.inconclusive, st.frontier_left, st.selftest.c_str(), st.wall);
        for (auto& km : st.known_matched)
            fprintf(stderr, "pmc[%s/%s] known finding matched: %s (%ld executions)\n", cfg->property_id, st.name.c_str(), km.first.c_str(), km.second);
        if (viol.found) break;
    }
    stop_slots();
    if (viol.found)
    {
        if (viol.outcome == "harness-error") rc = 2;
        else
        {
            rc = 1;
            printf("RAWVIOLATION property=%s key=%s replay=%s outcome=%s msg=%s\n", cfg->property_id, viol.key.c_str(),
                viol.replay_path.c_str(), viol.outcome.c_str(), jesc(viol.msg).c_str());
        }
    }
    // vacuity / self-test guards (fail closed)
    for (auto& st : stats)
    {
        if (st.name.empty()) continue;
        if (rc == 0 && st.selftest == "failed") { fprintf(stderr, "pmc: replay self-test failed for %s\n", st.name.c_str()); rc = 2; }
        if (rc == 0 && st.execs > 0 && st.with_alts == 0 && st.bound_target > 0)
        {
            fprintf(stderr, "pmc: vacuous exploration for %s (no execution offered an alternative)\n", st.name.c_str());
            rc = 2;
        }
    }
    // evidence part
    if (!evidence.empty())
    {
        FILE* f = fopen(evidence.c_str(), "w");
        if (!f) { perror("evidence"); return 2; }
        long execs = 0, trans = 0;
        size_t distinct = 0, nontriv = 0;
        bool exh = true;
        for (auto& st : stats) { execs += st.execs; trans += st.transitions; distinct += st.hashes.size(); nontriv += st.nontrivial.size(); exh = exh && st.exhaustive; }
        fprintf(f, "{\n \"part\": \"%s\", \"property_id\": \"%s\", \"tier\": \"%s\", \"engine\": \"pmc\",\n", part.c_str(), cfg->property_id, g_tier.c_str());
        fprintf(f, " \"executions\": %ld, \"transitions\": %ld, \"distinct_traces\": %zu, \"distinct_nontrivial\": %zu, \"exhaustive\": %s,\n",
            execs, trans, distinct, nontriv, exh ? "true" : "false");
        fprintf(f, " \"rule\": \"%s\",\n", jesc(cfg->rule ? cfg->rule : "").c_str());
        fprintf(f, " \"free_block_choice_bound\": %d,\n", cfg->free_block_bound);
        fprintf(f, " \"violation\": %s, \"exit\": %d, \"wall_s\": %.2f, \"jobs\": %d,\n", viol.found ? "true" : "false", rc, now_s() - t_start, g_jobs);
        if (viol.found)
            fprintf(f, " \"violation_key\": \"%s\", \"violation_replay\": \"%s\", \"violation_msg\": \"%s\",\n", jesc(viol.key).c_str(), jesc(viol.replay_path).c_str(), jesc(viol.msg).c_str());
        fprintf(f, " \"assumptions\": [");
        for (int i = 0; i < cfg->n_assumptions; ++i) fprintf(f, "%s\"%s\"", i ? ", " : "", jesc(cfg->assumptions[i]).c_str());
        fprintf(f, "],\n \"specs\": [\n");
        bool first_spec = true;
        for (size_t q = 0; q < stats.size(); ++q)
        {
            SpecStats& st = stats[q];
            if (st.name.empty()) continue;
            const pmc_spec& sp = specs[sel[q]];
            fprintf(f, "%s", first_spec ? "" : ",\n");
            first_spec = false;
            fprintf(f, "  {\"focus_site_regex\": \"%s\", \"focus_sites_matched\": %ld, \"site_table_rows\": %zu,\n", jesc(sp.focus_sites ? sp.focus_sites : "").c_str(), g_spec_sites_matched[sel[q]], g_sites.size());
            fprintf(f, "   \"name\": \"%s\", \"focus\": \"%s\", \"deviation_bound_target\": %d, \"deviation_bound_completed\": %d, \"exhaustive_within_bound\": %s,\n",
                st.name.c_str(), jesc(sp.focus_desc ? sp.focus_desc : "").c_str(), st.bound_target, st.bound_completed, st.exhaustive ? "true" : "false");
            fprintf(f, "   \"executions\": %ld, \"scheduling_decisions\": %ld, \"distinct_traces\": %zu, \"distinct_nontrivial\": %zu, \"distinct_outcomes\": %zu,\n",
                st.execs, st.transitions, st.hashes.size(), st.nontrivial.size(), st.outcomes.size());
            fprintf(f, "   \"executions_with_alternatives\": %ld, \"choice_points_max\": %ld, \"choice_points_avg\": %.1f, \"atomic_ops_max\": %ld, \"threads_max\": %ld,\n",
                st.with_alts, st.max_choices, st.execs ? (double) st.sum_choices / st.execs : 0.0, st.max_ops, st.max_threads);
            fprintf(f, "   \"executions_by_deviation_level\": [");
            for (int k = 0; k <= st.bound_target && k < 8; ++k) fprintf(f, "%s%ld", k ? ", " : "", st.execs_at_bound[k]);
            fprintf(f, "], \"frontier_left\": %ld, \"replay_divergences\": %ld, \"inconclusive\": %ld, \"choice_overflow\": %ld, \"replay_selftest\": \"%s\", \"wall_s\": %.2f,\n",
                st.frontier_left, st.divergences, st.inconclusive, st.overflow, st.selftest.c_str(), st.wall);
            fprintf(f, "   \"known_findings_matched\": {");
            bool firstk = true;
            for (auto& km : st.known_matched) { fprintf(f, "%s\"%s\": %ld", firstk ? "" : ", ", jesc(km.first).c_str(), km.second); firstk = false; }
            fprintf(f, "},\n   \"outcome_samples\": [");
            for (size_t i = 0; i < st.outcome_samples.size(); ++i) fprintf(f, "%s\"%s\"", i ? ", " : "", jesc(st.outcome_samples[i]).c_str());
            fprintf(f, "],\n   \"samples\": [");
            for (size_t i = 0; i < st.samples.size(); ++i) fprintf(f, "%s%s", i ? ", " : "", st.samples[i].c_str());
            fprintf(f, "]}");
        }
        fprintf(f, "\n ]\n}\n");
        fclose(f);
    }
    if (g_dump_outcomes) fclose(g_dump_outcomes);
    return rc;
}
