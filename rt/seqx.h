// seqx: bounded exhaustive enumeration of sequential operation histories / configuration grids on
// the real code against a reference model (DESIGN.md §3). Header-only helper: forked worker with a
// watchdog (a history that hangs is a reported outcome), part report in the same JSON shape as pmc.
#pragma once
#include <errno.h>
#include <fcntl.h>
#include <signal.h>
#include <stdarg.h>
#include <stdio.h>
#include <stdlib.h>
#include <string.h>
#include <sys/mman.h>
#include <sys/stat.h>
#include <sys/wait.h>
#include <time.h>
#include <unistd.h>

#include <functional>
#include <set>
#include <string>
#include <vector>

namespace seqx {

struct shared
{
    volatile long heartbeat;
    char current[2048];          // description of the history being executed
    volatile int done;
    long states, transitions, evaluations;
    int max_depth;
    int exhaustive;
    int violation;               // 1: unknown violation found
    char vkey[160];
    char vmsg[2048];
    char vhist[2048];
    long known_hits;
    char known_keys[8][160];
    long known_counts[8];
    int nsamples;
    char samples[6][512];
    int nspecs;
    char specs_json[16384];
};

struct options
{
    std::string property, part = "seq", tier = "quick", evidence, replay_dir = "replays", only, replay;
    std::set<std::string> known;
    double hang_timeout_s = 20;
    bool quiet_child = false;    // send the worker's stderr to /dev/null (library logging noise)
};

inline shared* g = nullptr;
inline options* gopt = nullptr;
inline std::string g_spec;

inline double now_s()
{
    struct timespec ts;
    clock_gettime(CLOCK_MONOTONIC, &ts);
    return ts.tv_sec + ts.tv_nsec * 1e-9;
}
inline std::string jesc(const std::string& s)
{
    std::string o;
    for (unsigned char ch : s)
    {
        if (ch == '"') o += "\\\"";
        else if (ch == '\\') o += "\\\\";
        else if (ch == '\n') o += "\\n";
        else if (ch < 0x20 || ch >= 0x7f) { char b[8]; snprintf(b, sizeof b, "\\u%04x", ch); o += b; }
        else o += (char) ch;
    }
    return o;
}
inline options parse(int argc, char** argv, const char* property)
{
    options o;
    o.property = property;
    for (int i = 1; i < argc; ++i)
    {
        std::string a = argv[i];
        auto next = [&]() -> std::string { return i + 1 < argc ? argv[++i] : ""; };
        if (a == "--tier") o.tier = next();
        else if (a == "--evidence") o.evidence = next();
        else if (a == "--part") o.part = next();
        else if (a == "--replay-dir") o.replay_dir = next();
        else if (a == "--only") o.only = next();
        else if (a == "--replay") o.replay = next();
        else if (a == "--known")
        {
            std::string k = next();
            size_t p = 0;
            while (p < k.size())
            {
                size_t e = k.find(',', p);
                if (e == std::string::npos) e = k.size();
                if (e > p) o.known.insert(k.substr(p, e - p));
                p = e + 1;
            }
        }
    }
    return o;
}

// ---- inside the worker -------------------------------------------------------------------------
inline void begin_case(const char* fmt, ...)
{
    va_list ap;
    va_start(ap, fmt);
    vsnprintf(g->current, sizeof g->current, fmt, ap);
    va_end(ap);
    ++g->heartbeat;
    ++g->evaluations;
    if (g->nsamples < 6 && (g->evaluations == 1 || g->evaluations % 997 == 0))
        snprintf(g->samples[g->nsamples++], 512, "%s: %.480s", g_spec.c_str(), g->current);
}
struct violation_exception {};
inline void note_known(const std::string& key)
{
    ++g->known_hits;
    for (int i = 0; i < 8; ++i)
    {
        if (!g->known_keys[i][0]) snprintf(g->known_keys[i], 160, "%s", key.c_str());
        if (key == g->known_keys[i]) { ++g->known_counts[i]; return; }
    }
}
// report a violation of the current case; known findings are counted and the enumeration goes on
inline bool fail(const char* id, const char* fmt, ...)
{
    char msg[1024];
    va_list ap;
    va_start(ap, fmt);
    vsnprintf(msg, sizeof msg, fmt, ap);
    va_end(ap);
    std::string key = g_spec + "/" + id;
    if (gopt->known.count(key))
    {
        note_known(key);
        return false;
    }
    if (!g->violation)
    {
        g->violation = 1;
        snprintf(g->vkey, sizeof g->vkey, "%s", key.c_str());
        snprintf(g->vmsg, sizeof g->vmsg, "%s", msg);
        snprintf(g->vhist, sizeof g->vhist, "%s", g->current);
    }
    throw violation_exception{};
}
#define SEQX_CHECK(c, id, ...)                                                                     \
    do {                                                                                           \
        if (!(c)) seqx::fail(id, __VA_ARGS__);                                                     \
    } while (0)

struct spec
{
    const char* name;
    std::function<void(bool thorough)> run;    // enumerates its whole space; updates g->states etc.
    const char* desc;
};

// Runs all specs in a forked worker under a watchdog; writes the part report; returns exit status.
inline int main_loop(options& o, const std::vector<spec>& specs, const char* rule, std::vector<std::string> assumptions)
{
    gopt = &o;
    g = (shared*) mmap(nullptr, sizeof(shared), PROT_READ | PROT_WRITE, MAP_SHARED | MAP_ANONYMOUS, -1, 0);
    memset((void*) g, 0, sizeof(shared));
    g->exhaustive = 1;
    double t0 = now_s();
    bool thorough = o.tier == "thorough";
    int rc = 0;
    std::string hang_key;
    for (size_t si = 0; si < specs.size() && !g->violation; ++si)
    {
        if (!o.only.empty() && o.only != specs[si].name) continue;
        g_spec = specs[si].name;
        long st0 = g->states, tr0 = g->transitions, ev0 = g->evaluations;
        double ts = now_s();
        g->done = 0;
        pid_t c = fork();
        if (c == 0)
        {
            if (o.quiet_child) { int fd = open("/dev/null", O_WRONLY); if (fd >= 0) { dup2(fd, 2); close(fd); } }
            try { specs[si].run(thorough); }
            catch (violation_exception&) {}
            g->done = 1;
            _exit(0);
        }
        long last = -1;
        double last_change = now_s();
        int st = 0;
        for (;;)
        {
            pid_t w = waitpid(c, &st, WNOHANG);
            if (w == c) break;
            if (g->heartbeat != last) { last = g->heartbeat; last_change = now_s(); }
            else if (now_s() - last_change > o.hang_timeout_s)
            {
                kill(c, SIGKILL);
                waitpid(c, &st, 0);
                hang_key = g_spec + "/hang";
                break;
            }
            usleep(20000);
        }
        if (!g->done && hang_key.empty()) hang_key = g_spec + (WIFSIGNALED(st) ? "/crash-signal-" + std::to_string(WTERMSIG(st)) : "/exit-" + std::to_string(WEXITSTATUS(st)));
        if (!hang_key.empty())
        {
            if (o.known.count(hang_key)) { note_known(hang_key); g->exhaustive = 0; hang_key.clear(); }
            else
            {
                g->violation = 1;
                snprintf(g->vkey, sizeof g->vkey, "%s", hang_key.c_str());
                snprintf(g->vmsg, sizeof g->vmsg, "the case did not return within %.0f s / the worker died", o.hang_timeout_s);
                snprintf(g->vhist, sizeof g->vhist, "%s", g->current);
            }
        }
        int n = (int) strlen(g->specs_json);
        snprintf(g->specs_json + n, sizeof g->specs_json - n,
            "%s  {\"name\": \"%s\", \"focus\": \"%s\", \"executions\": %ld, \"states\": %ld, \"transitions\": %ld, \"wall_s\": %.2f, \"samples\": []}",
            n ? ",\n" : "", specs[si].name, jesc(specs[si].desc).c_str(), g->evaluations - ev0, g->states - st0, g->transitions - tr0, now_s() - ts);
        fprintf(stderr, "seqx[%s/%s] cases=%ld states=%ld transitions=%ld wall=%.1fs%s\n", o.property.c_str(), specs[si].name,
            g->evaluations - ev0, g->states - st0, g->transitions - tr0, now_s() - ts, g->violation ? " VIOLATION" : "");
    }
    std::string replay_path;
    if (g->violation)
    {
        rc = 1;
        mkdir(o.replay_dir.c_str(), 0755);
        unsigned long h = 1469598103934665603ul;
        for (const char* p = g->vhist; *p; ++p) { h ^= (unsigned char) *p; h *= 1099511628211ul; }
        char path[512];
        std::string k = g->vkey;
        for (auto& ch : k) if (ch == '/') ch = '-';
        snprintf(path, sizeof path, "%s/%s-%s-%016lx.json", o.replay_dir.c_str(), o.property.c_str(), k.c_str(), h);
        replay_path = path;
        FILE* f = fopen(path, "w");
        if (f)
        {
            fprintf(f, "{\n \"property\": \"%s\",\n \"spec\": \"%s\",\n \"key\": \"%s\",\n \"history\": \"%s\",\n \"msg\": \"%s\"\n}\n", o.property.c_str(),
                std::string(g->vkey).substr(0, std::string(g->vkey).find('/')).c_str(), jesc(g->vkey).c_str(), jesc(g->vhist).c_str(), jesc(g->vmsg).c_str());
            fclose(f);
        }
        printf("RAWVIOLATION property=%s key=%s replay=%s msg=%s || history: %s\n", o.property.c_str(), g->vkey, path, jesc(g->vmsg).c_str(), jesc(g->vhist).c_str());
    }
    if (!o.evidence.empty())
    {
        FILE* f = fopen(o.evidence.c_str(), "w");
        if (!f) return 2;
        fprintf(f, "{\n \"part\": \"%s\", \"property_id\": \"%s\", \"tier\": \"%s\", \"engine\": \"seqx\",\n", o.part.c_str(), o.property.c_str(), o.tier.c_str());
        fprintf(f, " \"executions\": %ld, \"transitions\": %ld, \"distinct_traces\": %ld, \"distinct_nontrivial\": %ld, \"exhaustive\": %s,\n", g->evaluations,
            g->transitions, g->states, g->states, (g->exhaustive && !g->violation) ? "true" : "false");
        fprintf(f, " \"rule\": \"%s\",\n \"violation\": %s, \"exit\": %d, \"wall_s\": %.2f,\n", jesc(rule).c_str(), g->violation ? "true" : "false", rc, now_s() - t0);
        if (g->violation) fprintf(f, " \"violation_key\": \"%s\", \"violation_replay\": \"%s\", \"violation_msg\": \"%s\",\n", jesc(g->vkey).c_str(), jesc(replay_path).c_str(), jesc(g->vmsg).c_str());
        fprintf(f, " \"assumptions\": [");
        for (size_t i = 0; i < assumptions.size(); ++i) fprintf(f, "%s\"%s\"", i ? ", " : "", jesc(assumptions[i]).c_str());
        fprintf(f, "],\n \"samples\": [");
        for (int i = 0; i < g->nsamples; ++i) fprintf(f, "%s\"%s\"", i ? ", " : "", jesc(g->samples[i]).c_str());
        fprintf(f, "],\n \"specs\": [\n%s\n ]", g->specs_json);
        fprintf(f, ",\n \"known_findings_matched_total\": {");
        for (int i = 0, first = 1; i < 8; ++i)
            if (g->known_keys[i][0]) { fprintf(f, "%s\"%s\": %ld", first ? "" : ", ", jesc(g->known_keys[i]).c_str(), g->known_counts[i]); first = 0; }
        fprintf(f, "}");
        fprintf(f, "\n}\n");
        fclose(f);
    }
    return rc;
}

}    // namespace seqx
