// coverage audit only (scripts/coverage_audit.sh): one copy of this file is linked into every coverage-instrumented
// module (libpika, harness executable); it gives libpmcrt a visible handle on the module's own, hidden, profile writer
extern "C" int __llvm_profile_write_file(void);
extern "C" __attribute__((visibility("default"))) int PMC_COV_NAME(void) { return __llvm_profile_write_file(); }
