// Shared between the runtime (pmcrt.cpp) and the explorer (explore.cpp): the per-execution record
// that lives in a MAP_SHARED page set, written by the forked execution and read by the explorer.
#pragma once
#include <stdint.h>

enum { PMC_MAXC = 16384, PMC_TRACE_BYTES = 1 << 20, PMC_MAXT = 64 };

enum pmc_outcome_t {
    OUT_NONE = 0,      // child died before reporting (crash / kill)
    OUT_OK = 1,
    OUT_ASSERT = 2,    // harness oracle failed (fail_id)
    OUT_DEADLOCK = 3,  // no enabled thread, nobody timed
    OUT_STUCK = 4,     // livelock / quiescent without finishing
    OUT_DIVERGED = 5,  // replay of the prefix diverged
    OUT_CRASH = 6,     // signal / abort (filled by the slot process)
    OUT_TIMEOUT = 7,   // wall-clock limit (filled by the slot process)
    OUT_HARNESS_ERROR = 8
};

enum pmc_choice_kind { CK_FOCUS = 1, CK_BLOCK = 2, CK_YIELD = 3, CK_DATA = 4, CK_WAKE = 5 };

struct pmc_exec_rec
{
    // ---- input (explorer -> execution)
    int spec_index;
    int prefix_len;
    uint16_t prefix[PMC_MAXC];
    uint16_t prefix_n[PMC_MAXC];    // expected number of enabled entries (0 = unknown)
    int trace_mode;
    int limit_mult;                 // multiplier for quantum / stuck rounds (confirmation re-runs)
    // ---- output (execution -> explorer)
    volatile int done;
    int outcome;
    char fail_id[96];
    char msg[2048];
    int nchoices;
    uint16_t n[PMC_MAXC];
    uint16_t c[PMC_MAXC];
    uint8_t cost[PMC_MAXC];
    uint8_t kind[PMC_MAXC];
    int overflow;
    uint64_t hash;
    uint64_t outcome_hash;
    char outcome_str[4096];
    long ops, points, switches, focus_switches, idle_rounds;
    int threads;
    int real_alts;                  // recorded choice points with n > 1
    uint64_t vclock_end;
    int signal_no;
    double wall_s;
    int trace_len;
    int trace_truncated;
    char trace[PMC_TRACE_BYTES];
};

extern "C" {
// runtime entry points used by the explorer (same shared object)
void pmc_rt_begin(pmc_exec_rec* rec);
void pmc_rt_end(void);
void pmc_cov_flush(void);
// F-site tables: per spec a sorted array of absolute return addresses + a kind mask
void pmc_rt_set_sites(int spec, const uintptr_t* ras, int n, unsigned kindmask);
void pmc_rt_set_site_namer(const char* (*fn)(uintptr_t ra));
}
