// pmc runtime: serialising token scheduler for all threads of the process, libpthread
// interposition, __tsan_atomic* hooks (clang atomics-only instrumentation), virtual clock,
// choice recording / prefix replay, spin + stuck detection.  See DESIGN.md §2.
#ifndef _GNU_SOURCE
#define _GNU_SOURCE
#endif
#include "pmc.h"
#include "pmc_internal.h"

#include <dlfcn.h>
#include <errno.h>
#include <linux/futex.h>
#include <pthread.h>
#include <sched.h>
#include <signal.h>
#include <stdarg.h>
#include <stdint.h>
#include <stdio.h>
#include <stdlib.h>
#include <string.h>
#include <sys/syscall.h>
#include <time.h>
#include <unistd.h>
#include <initializer_list>
// coverage audit (scripts/coverage_audit.sh): forked executions end with _exit, so the profile of a
// coverage-instrumented harness / library has to be written by hand; a no-op in normal builds
extern "C" void pmc_cov_flush()
{
    if (!getenv("LLVM_PROFILE_FILE")) return;
    for (const char* n : {"pmc_cov_write_lib", "pmc_cov_write_exe"})
        if (auto f = (int (*)()) dlsym(RTLD_DEFAULT, n)) f();
}

typedef unsigned __int128 u128;

enum St { FREE = 0, RUNNABLE, BLOCKED, DONE };
enum Why { W_NONE = 0, W_MUTEX, W_COND, W_JOIN, W_SLEEP, W_GUARD, W_ONCE };
enum { K_LOAD = 1, K_STORE = 2, K_RMW = 3, K_CAS = 4, K_LOCK = 5, K_USER = 6 };

struct Rec
{
    int futex;
    int exit_futex;    // a finished thread parks here until it is joined (deterministic teardown)
    int st;
    int why;
    const void* obj;
    uint64_t deadline;    // 0 = untimed
    int timedout;
    int yielded;
    int prog;             // made a progress event since its last block / yield
    uint64_t blockseq;
    int clock_polls;
    uint64_t own_prog;    // progress events made by this thread
    uint64_t poll_others; // progress by others seen at its previous clock read
    int poll_k;           // consecutive clock reads with no progress by anyone else
    // polling-loop detection across the thread's own progress (task-level spin: yield, re-check)
    struct { const void* ra; const void* addr; uint64_t val; uint64_t others; int rep; } seen[4];
    int seen_next;
    int polling;
    uint64_t polling_others;
    // call sites of the thread's recent focused operations (frozen while it is classified as polling):
    // a focused operation from a site outside this set means the thread has left the loop
    const void* loop_sites[32];
    int loop_next;
    long act;             // memory-changing atomic ops (watched or not) since its last yield
    // spin equivalence: last focused op that changed nothing
    const void* spin_ra;
    const void* spin_addr;
    uint64_t spin_val;
    uint64_t spin_epoch;
    int spin_valid;
    pthread_t pt;
    void* (*fn)(void*);
    void* arg;
    char name[24];
};

static Rec R[PMC_MAXT];
static int nrec = 0;
static volatile int ctl = 0;
static int cur = -1;
static __thread int self __attribute__((tls_model("initial-exec"))) = -1;
static __thread int in_rt __attribute__((tls_model("initial-exec"))) = 0;

static pmc_exec_rec* X = nullptr;    // shared record of the running execution
static long nops, npoints, nswitch, nfocus_switch, ops_since_switch;
static long QUANTUM = 4000, STUCK_ROUNDS = 400;
static long OPS_HORIZON = 6000000;    // explicit horizon: an execution that needs more hooked operations is a livelock
static long quantum_cfg = 4000, stuck_cfg = 400;
static uint64_t vclock_ns, last_progress_vclock;
static uint64_t epoch;    // global progress epoch
static long idle_rounds, total_idle_rounds;
static uint64_t blockseq;
static uint64_t trace_hash;
static void (*stuck_cb)(void) = nullptr;
// optional log of the operations on watched objects (model conformance: the harness projects it onto
// the model's event alphabet); marks are inserted by the harness
struct EvRec { uint8_t tid, kind, changed, watch; uint32_t off; uint64_t val; };
static EvRec evlog[1024];
static int evlog_n = 0, evlog_on = 0;
static int rec_len;
static uint64_t deadlines[64];
static int ndeadlines;

struct Watch { const char* lo; const char* hi; char name[32]; };
enum { MAXW = 256 };
static Watch watches[MAXW];
static int nwatch;
static int focus_pthread;
enum { MAXSPEC = 64 };
static const uintptr_t* site_tab[MAXSPEC];
static int site_n[MAXSPEC];
static unsigned site_mask[MAXSPEC];
static const uintptr_t* cur_sites;
static int cur_nsites;
static unsigned cur_site_mask;
static const char* (*site_namer)(uintptr_t);    // all pthread lock / cond operations are focused points

// ------------------------------------------------------------------------------------------------
static int (*real_create)(pthread_t*, const pthread_attr_t*, void* (*)(void*), void*);
static int (*real_join)(pthread_t, void**);
static int (*real_mlock)(pthread_mutex_t*);
static int (*real_mtrylock)(pthread_mutex_t*);
static int (*real_munlock)(pthread_mutex_t*);
static int (*real_cwait)(pthread_cond_t*, pthread_mutex_t*);
static int (*real_ctimedwait)(pthread_cond_t*, pthread_mutex_t*, const struct timespec*);
static int (*real_cclockwait)(pthread_cond_t*, pthread_mutex_t*, clockid_t, const struct timespec*);
static int (*real_csignal)(pthread_cond_t*);
static int (*real_cbroadcast)(pthread_cond_t*);
static int (*real_yield)(void);
static int (*real_nanosleep)(const struct timespec*, struct timespec*);
static int (*real_clock_nanosleep)(clockid_t, int, const struct timespec*, struct timespec*);
static int (*real_usleep)(useconds_t);
static int (*real_clock_gettime)(clockid_t, struct timespec*);
static int (*real_once)(pthread_once_t*, void (*)(void));
static int (*real_guard_acquire)(uint64_t*);
static void (*real_guard_release)(uint64_t*);
static void (*real_guard_abort)(uint64_t*);

static void resolve()
{
    if (real_create) return;
    int s = in_rt;
    in_rt = 1;
#define RS(var, name) var = (decltype(var)) dlsym(RTLD_NEXT, name)
    RS(real_join, "pthread_join");
    RS(real_mlock, "pthread_mutex_lock");
    RS(real_mtrylock, "pthread_mutex_trylock");
    RS(real_munlock, "pthread_mutex_unlock");
    RS(real_cwait, "pthread_cond_wait");
    RS(real_ctimedwait, "pthread_cond_timedwait");
    RS(real_cclockwait, "pthread_cond_clockwait");
    RS(real_csignal, "pthread_cond_signal");
    RS(real_cbroadcast, "pthread_cond_broadcast");
    RS(real_yield, "sched_yield");
    RS(real_nanosleep, "nanosleep");
    RS(real_clock_nanosleep, "clock_nanosleep");
    RS(real_usleep, "usleep");
    RS(real_clock_gettime, "clock_gettime");
    RS(real_once, "pthread_once");
    RS(real_guard_acquire, "__cxa_guard_acquire");
    RS(real_guard_release, "__cxa_guard_release");
    RS(real_guard_abort, "__cxa_guard_abort");
    RS(real_create, "pthread_create");
#undef RS
    in_rt = s;
}

static void fwait(int* f)
{
    while (__atomic_load_n(f, __ATOMIC_ACQUIRE) == 0) syscall(SYS_futex, f, FUTEX_WAIT, 0, 0, 0, 0);
    __atomic_store_n(f, 0, __ATOMIC_RELAXED);
}
static void fwake(int* f)
{
    __atomic_store_n(f, 1, __ATOMIC_RELEASE);
    syscall(SYS_futex, f, FUTEX_WAKE, 1, 0, 0, 0);
}
static inline void mix(uint64_t v)
{
    trace_hash ^= v;
    trace_hash *= 1099511628211ull;
}

// ------------------------------------------------------------------------------------------------
// trace (only in trace mode)
static void tracef(const char* fmt, ...) __attribute__((format(printf, 1, 2)));
static void tracef(const char* fmt, ...)
{
    if (!X || !X->trace_mode) return;
    if (X->trace_len > PMC_TRACE_BYTES - 512) { X->trace_truncated = 1; return; }
    va_list ap;
    va_start(ap, fmt);
    int n = vsnprintf(X->trace + X->trace_len, PMC_TRACE_BYTES - X->trace_len, fmt, ap);
    va_end(ap);
    if (n > 0) X->trace_len += n;
}
static const char* tname(int i)
{
    static char buf[4][40];
    static int k = 0;
    char* b = buf[k++ & 3];
    if (i < 0) { snprintf(b, 40, "t?"); return b; }
    if (R[i].name[0]) snprintf(b, 40, "t%d(%s)", i, R[i].name);
    else snprintf(b, 40, "t%d", i);
    return b;
}

// ------------------------------------------------------------------------------------------------
static void finish(int outcome) __attribute__((noreturn));
static void finish(int outcome)
{
    ctl = 0;
    if (X)
    {
        X->outcome = outcome;
        X->nchoices = rec_len;
        X->hash = trace_hash;
        X->ops = nops;
        X->points = npoints;
        X->switches = nswitch;
        X->focus_switches = nfocus_switch;
        X->idle_rounds = total_idle_rounds;
        X->threads = nrec;
        X->vclock_end = vclock_ns;
        __atomic_store_n(&X->done, 1, __ATOMIC_SEQ_CST);
    }
    pmc_cov_flush();
    _exit(0);
}
static void describe_threads(char* out, size_t cap)
{
    size_t len = strlen(out);
    for (int i = 0; i < nrec && len + 100 < cap; ++i)
    {
        static const char* sn[] = {"free", "runnable", "blocked", "done"};
        static const char* wn[] = {"-", "mutex", "cond", "join", "sleep", "guard", "once"};
        len += snprintf(out + len, cap - len, " [%s %s%s%s%s]", tname(i), sn[R[i].st],
            R[i].st == BLOCKED ? ":" : "", R[i].st == BLOCKED ? wn[R[i].why] : "",
            R[i].st == BLOCKED && R[i].deadline ? ":timed" : (R[i].yielded ? ":yielded" : ""));
    }
}
static void die(int outcome, const char* id, const char* m) __attribute__((noreturn));
static void die(int outcome, const char* id, const char* m)
{
    in_rt = 1;
    if (X)
    {
        snprintf(X->fail_id, sizeof X->fail_id, "%s", id);
        snprintf(X->msg, sizeof X->msg, "%s;", m);
        describe_threads(X->msg, sizeof X->msg);
    }
    tracef("%s END %s %s\n", tname(self), id, m);
    finish(outcome);
}

// ------------------------------------------------------------------------------------------------
static void wake_passed_deadlines()
{
    for (int i = 0; i < nrec; ++i)
        if (R[i].st == BLOCKED && R[i].deadline && R[i].deadline <= vclock_ns)
        {
            R[i].timedout = 1;
            R[i].st = RUNNABLE;
            R[i].yielded = 0;
            tracef("   clock: %s deadline passed\n", tname(i));
        }
    int k = 0;
    for (int i = 0; i < ndeadlines; ++i)
        if (deadlines[i] > vclock_ns) deadlines[k++] = deadlines[i];
    ndeadlines = k;
}
// the harness' stuck callback runs uncontrolled and may block on a lock that a parked thread holds
// (e.g. asking the runtime for its thread counts): after 3 s the execution is reported as stuck anyway
static void stuck_cb_alarm(int)
{
    in_rt = 1;
    die(OUT_STUCK, "stuck", "no progress (the harness' diagnostic callback itself blocked)");
}
static void run_stuck_cb()
{
    if (!stuck_cb) return;
    struct sigaction sa;
    memset(&sa, 0, sizeof sa);
    sa.sa_handler = stuck_cb_alarm;
    sigaction(SIGALRM, &sa, nullptr);
    sigset_t ss;
    sigemptyset(&ss);
    sigaddset(&ss, SIGALRM);
    pthread_sigmask(SIG_UNBLOCK, &ss, nullptr);
    alarm(3);
    stuck_cb();
    alarm(0);
}
static void global_progress()
{
    ++epoch;
    idle_rounds = 0;
    last_progress_vclock = vclock_ns;
    for (int i = 0; i < nrec; ++i)
        if (i != self) R[i].yielded = 0;
    if (self >= 0) { R[self].prog = 1; R[self].clock_polls = 0; ++R[self].own_prog; }
}
static void stuck() __attribute__((noreturn));
static void stuck()
{
    in_rt = 0;
    ctl = 0;    // callbacks run uncontrolled (they only read state)
    if (getenv("PMC_STUCK_ABORT")) abort();
    run_stuck_cb();
    die(OUT_STUCK, "stuck", "no progress: every thread is blocked, idle or spinning");
}
// one idle round: nobody could make progress in this round; let virtual time pass
static void idle_round()
{
    ++idle_rounds;
    ++total_idle_rounds;
    uint64_t step = idle_rounds < 30 ? (1000ull << idle_rounds) : 1000000000ull;
    if (step > 1000000000ull) step = 1000000000ull;
    vclock_ns += step;
    wake_passed_deadlines();
    if (idle_rounds > STUCK_ROUNDS && vclock_ns - last_progress_vclock > 10000000000ull) stuck();
}

// take a choice among n entries; returns the index chosen
static int take_choice(int n, int kind, int altcost)
{
    if (n <= 1) return 0;
    int c = 0;
    if (rec_len < X->prefix_len)
    {
        c = X->prefix[rec_len];
        int en = X->prefix_n[rec_len];
        if (c >= n || (en && en != n))
        {
            char b[160];
            snprintf(b, sizeof b, "replay divergence at choice %d: enabled %d, recorded %d, choice %d",
                rec_len, n, en, c);
            die(OUT_DIVERGED, "diverged", b);
        }
    }
    if (rec_len < PMC_MAXC)
    {
        X->n[rec_len] = (uint16_t) n;
        X->c[rec_len] = (uint16_t) c;
        X->cost[rec_len] = (uint8_t) altcost;
        X->kind[rec_len] = (uint8_t) kind;
        ++rec_len;
        X->nchoices = rec_len;    // kept current so that a crashing execution can be replayed
        ++X->real_alts;
    }
    else
        X->overflow = 1;
    return c;
}

static void switch_to(int nxt)
{
    if (nxt == self)
    {
        R[self].yielded = 0;
        return;
    }
    ++nswitch;
    ops_since_switch = 0;
    mix(0x5157ull << 32 | (unsigned) nxt);
    tracef("   switch %s -> %s\n", tname(self), tname(nxt));
    cur = nxt;
    R[nxt].yielded = 0;
    R[nxt].clock_polls = 0;
    int me = self;
    fwake(&R[nxt].futex);
    if (me >= 0 && R[me].st != DONE) fwait(&R[me].futex);
}

// The current thread cannot (or should not) continue: pick a successor.
//   blocked = 1: current thread is BLOCKED/DONE; 0: it yielded (still RUNNABLE, yielded = 1)
static void reschedule(int blocked)
{
    for (;;)
    {
        int cand[PMC_MAXT], n = 0;
        for (int k = 1; k <= nrec; ++k)
        {
            int i = (cur + k) % nrec;
            if (i == cur) continue;
            if (R[i].st == RUNNABLE && !R[i].yielded) cand[n++] = i;
        }
        if (n > 0)
        {
            int c = 0;
            // free alternatives only where the thread really blocks; a yielding (spinning, polling)
            // thread hands over to its round-robin successor - other orders cost a preemption
            if (n > 1 && R[self].prog && blocked) c = take_choice(n, CK_BLOCK, 0);
            R[self].prog = 0;
            switch_to(cand[c]);
            return;
        }
        // nobody fresh: a full round without progress
        for (int k = 1; k <= nrec; ++k)
        {
            int i = (cur + k) % nrec;
            if (i == cur) continue;
            if (R[i].st == RUNNABLE) cand[n++] = i;
        }
        if (n > 0)
        {
            R[self].prog = 0;
            idle_round();
            switch_to(cand[0]);
            return;
        }
        // nobody else runnable at all
        if (!blocked)
        {
            R[self].prog = 0;
            idle_round();
            R[self].yielded = 0;
            return;
        }
        // everything blocked: release the earliest timed waiter (timeout as last resort)
        int best = -1;
        for (int i = 0; i < nrec; ++i)
            if (R[i].st == BLOCKED && R[i].deadline && (best < 0 || R[i].deadline < R[best].deadline))
                best = i;
        if (best < 0) die(OUT_DEADLOCK, "deadlock", "no enabled thread and no timed waiter");
        ++idle_rounds;
        ++total_idle_rounds;
        if (vclock_ns < R[best].deadline) vclock_ns = R[best].deadline;
        wake_passed_deadlines();
        if (idle_rounds > STUCK_ROUNDS && vclock_ns - last_progress_vclock > 10000000000ull) stuck();
        if (R[self].st == RUNNABLE) return;    // we were the one released
        // loop: now somebody is runnable
    }
}

static void block_on(int why, const void* obj, uint64_t deadline)
{
    R[self].st = BLOCKED;
    R[self].why = why;
    R[self].obj = obj;
    R[self].deadline = deadline;
    R[self].timedout = 0;
    R[self].blockseq = ++blockseq;
    if (deadline && deadline <= vclock_ns)
    {
        R[self].st = RUNNABLE;
        R[self].timedout = 1;
        R[self].deadline = 0;
        return;
    }
    tracef("%s blocks\n", tname(self));
    reschedule(1);
    R[self].deadline = 0;
}
static int wake_waiters(int why, const void* obj, int one)
{
    int woke = 0;
    for (;;)
    {
        int best = -1;
        for (int i = 0; i < nrec; ++i)
            if (R[i].st == BLOCKED && R[i].why == why && R[i].obj == obj &&
                (best < 0 || R[i].blockseq < R[best].blockseq))
                best = i;
        if (best < 0) break;
        R[best].st = RUNNABLE;
        R[best].yielded = 0;
        ++woke;
        tracef("   %s wakes %s\n", tname(self), tname(best));
        if (one) break;
    }
    if (woke) global_progress();
    return woke;
}
static void do_yield()
{
    R[self].yielded = 1;
    R[self].act = 0;
    reschedule(0);
}
// quantum expired although the thread keeps changing memory: it is working, not spinning. Give the
// others a turn (their wait condition may have changed), but this is not an idle round.
static void preempt_active()
{
    R[self].act = 0;
    // a full quantum of productive work takes time: without this a thread that sleeps for a
    // microsecond (pika's spinlock back-off) never wakes up while another thread stays busy
    vclock_ns += (uint64_t) QUANTUM * 25;
    wake_passed_deadlines();
    int nxt = -1;
    for (int k = 1; k < nrec; ++k)
    {
        int i = (cur + k) % nrec;
        if (R[i].st == RUNNABLE) { nxt = i; break; }
    }
    ops_since_switch = 0;
    if (nxt < 0) return;
    for (int i = 0; i < nrec; ++i) R[i].yielded = 0;
    switch_to(nxt);
}

static inline int controlled() { return ctl && self >= 0 && !in_rt && R[self].st == RUNNABLE; }

static int find_watch(const volatile void* a)
{
    for (int i = 0; i < nwatch; ++i)
        if ((const char*) a >= watches[i].lo && (const char*) a < watches[i].hi) return i;
    return -1;
}

static void do_jump()
{
    uint64_t d = 0;
    for (int i = 0; i < ndeadlines; ++i)
        if (deadlines[i] > vclock_ns && (!d || deadlines[i] < d)) d = deadlines[i];
    if (!d) return;
    vclock_ns = d + 1;
    tracef("   clock jumps to registered deadline (+%llu)\n", (unsigned long long) d);
    wake_passed_deadlines();
}

// scheduling point before a focused operation
static void focus_point(int kind, int w, const volatile void* a, const void* ra)
{
    ++npoints;
    (void) kind;
    (void) w;
    (void) a;
    (void) ra;
    int en[PMC_MAXT + 1], n = 0;
    en[n++] = cur;
    for (int i = 0; i < nrec; ++i)
        if (i != cur && R[i].st == RUNNABLE && !R[i].yielded) en[n++] = i;
    int jump = 0;
    for (int i = 0; i < ndeadlines; ++i)
        if (deadlines[i] > vclock_ns) jump = 1;
    if (jump) en[n++] = -2;
    int c = take_choice(n, CK_FOCUS, 1);
    if (en[c] == -2) { do_jump(); return; }
    if (en[c] != self)
    {
        ++nfocus_switch;
        switch_to(en[c]);
    }
}

static inline bool site_focused(const void* ra, int kind)
{
    if (!cur_nsites || !(cur_site_mask & (1u << kind))) return false;
    uintptr_t x = (uintptr_t) ra;
    int lo = 0, hi = cur_nsites - 1;
    while (lo <= hi)
    {
        int mid = (lo + hi) >> 1;
        if (cur_sites[mid] == x) return true;
        if (cur_sites[mid] < x) lo = mid + 1;
        else hi = mid - 1;
    }
    return false;
}
struct Pre { int w; int skip; int focus; };
static inline Pre pre_op(int kind, const volatile void* a, const void* ra)
{
    Pre p{-1, 1, 0};
    if (!controlled()) return p;
    p.skip = 0;
    if (++nops > OPS_HORIZON * (X && X->limit_mult > 1 ? X->limit_mult : 1))
    {
        in_rt = 1;
        if (getenv("PMC_STUCK_ABORT")) abort();
        if (stuck_cb) { in_rt = 0; ctl = 0; run_stuck_cb(); in_rt = 1; }
        die(OUT_STUCK, "stuck", "horizon: the execution did not finish within the operation horizon (threads keep running without finishing: livelock)");
    }
    if (++ops_since_switch > QUANTUM)
    {
        in_rt = 1;
        if (R[self].act > 0)
        {
            tracef("%s quantum expired (active)\n", tname(self));
            preempt_active();
        }
        else
        {
            tracef("%s quantum expired (no memory change: spinning)\n", tname(self));
            do_yield();
        }
        in_rt = 0;
    }
    int w = nwatch ? find_watch(a) : -1;
    p.w = w;
    p.focus = w >= 0 || site_focused(ra, kind);
    if (p.focus)
    {
        Rec& r = R[self];
        bool spinning = r.spin_valid && r.spin_ra == ra && r.spin_addr == (const void*) a &&
            r.spin_epoch == epoch;
        // the polling classifications below are cleared by other threads' progress - or by the thread
        // itself leaving the loop: a focused operation from a call site that was not part of the loop
        // (a worker that polled in its idle loop and now runs a task must get its choice points back)
        {
            bool known = false;
            for (int i = 0; i < 32; ++i)
                if (r.loop_sites[i] == ra) { known = true; break; }
            if (r.poll_k >= 2 || r.polling)
            {
                if (!known)
                {
                    if (X && X->trace_mode) { in_rt = 1; tracef("%s left its polling loop (operation from a new site): choice points resume\n", tname(self)); in_rt = 0; }
                    r.poll_k = 0;
                    r.polling = 0;
                }
            }
            if (!known && !(r.poll_k >= 2 || r.polling)) r.loop_sites[r.loop_next++ & 31] = ra;
        }
        // a thread that keeps polling the clock while nobody else makes progress repeats the same
        // loop iteration: its operations open no further choice points (reduction, not extension)
        if (r.poll_k >= 2) spinning = true;
        if (r.polling)
        {
            if (epoch - r.own_prog != r.polling_others) r.polling = 0;    // somebody else progressed
            else spinning = true;
        }
        if (!spinning)
        {
            in_rt = 1;
            focus_point(kind, w, a, ra);
            in_rt = 0;
        }
    }
    return p;
}
static inline void note_change(Pre p, bool changed)
{
    if (!p.skip && changed) ++R[self].act;
}
static inline void post_op(Pre p, int kind, const volatile void* a, const void* ra, uint64_t val,
    bool changed)
{
    if (!p.focus) return;
    in_rt = 1;
    Rec& r = R[self];
    if (evlog_on && p.w >= 0 && evlog_n < 1024)
        evlog[evlog_n++] = EvRec{(uint8_t) self, (uint8_t) kind, (uint8_t) changed, (uint8_t) p.w, (uint32_t) ((const char*) a - watches[p.w].lo), val};
    if (p.w >= 0)
        mix(((uint64_t) self << 56) ^ ((uint64_t) kind << 48) ^ ((uint64_t) p.w << 32) ^
            (uint64_t) ((const char*) a - watches[p.w].lo));
    else
        mix(((uint64_t) self << 56) ^ ((uint64_t) kind << 48) ^ 0xffffull << 32 ^ ((uintptr_t) ra & 0xffffffff));
    mix(val);
    if (X->trace_mode)
    {
        static const char* kn[] = {"?", "load", "store", "rmw", "cas", "lock", "user"};
        const char* sn = site_namer ? site_namer((uintptr_t) ra) : nullptr;
        if (p.w >= 0)
            tracef("%s %s %s+%ld -> %llx%s   @ %s\n", tname(self), kn[kind], watches[p.w].name,
                (long) ((const char*) a - watches[p.w].lo), (unsigned long long) val,
                changed ? " *" : "", sn ? sn : "?");
        else
            tracef("%s %s [%p] -> %llx%s   @ %s\n", tname(self), kn[kind], (const void*) a,
                (unsigned long long) val, changed ? " *" : "", sn ? sn : "?");
    }
    if (changed)
    {
        r.spin_valid = 0;
        global_progress();
    }
    else
    {
        if (kind == K_LOAD)
        {
            // the same load (site, address, value) seen again and again while nobody else made
            // progress: the thread (or the tasks it multiplexes) is in a polling loop
            uint64_t others = epoch - r.own_prog;
            int hit = -1;
            for (int i = 0; i < 4; ++i)
                if (r.seen[i].ra == ra && r.seen[i].addr == (const void*) a) hit = i;
            if (hit < 0)
            {
                hit = r.seen_next++ & 3;
                r.seen[hit] = {ra, (const void*) a, val, others, 0};
            }
            else if (r.seen[hit].val == val && r.seen[hit].others == others)
            {
                if (++r.seen[hit].rep >= 3 && !r.polling)
                {
                    r.polling = 1;
                    r.polling_others = others;
                    tracef("%s is polling (same load, same value, nobody else progressed): choice points suspended\n", tname(self));
                }
            }
            else
            {
                r.seen[hit].val = val;
                r.seen[hit].others = others;
                r.seen[hit].rep = 0;
            }
        }
        bool same = r.spin_valid && r.spin_ra == ra && r.spin_addr == (const void*) a &&
            r.spin_val == val && r.spin_epoch == epoch;
        r.spin_valid = 1;
        r.spin_ra = ra;
        r.spin_addr = (const void*) a;
        r.spin_val = val;
        r.spin_epoch = epoch;
        if (same)
        {
            tracef("%s spins (same op, same value, no progress) -> yield\n", tname(self));
            do_yield();
        }
    }
    in_rt = 0;
}

extern "C" {
// ------------------------------------------------------------------------------------------------
// harness API
void pmc_watch(const void* p, size_t n, const char* name)
{
    if (nwatch >= MAXW) return;
    for (int i = 0; i < nwatch; ++i)
        if (watches[i].lo == (const char*) p) { watches[i].hi = (const char*) p + n; return; }
    watches[nwatch].lo = (const char*) p;
    watches[nwatch].hi = (const char*) p + n;
    snprintf(watches[nwatch].name, sizeof watches[nwatch].name, "%s", name ? name : "obj");
    ++nwatch;
}
void pmc_unwatch(const void* p)
{
    for (int i = 0; i < nwatch; ++i)
        if (watches[i].lo == (const char*) p) { watches[i].lo = watches[i].hi = nullptr; }
}
int pmc_choose(int n, int alt_cost)
{
    if (!ctl || self < 0 || n <= 1) return 0;
    int s = in_rt;
    in_rt = 1;
    int c = take_choice(n, CK_DATA, alt_cost);
    mix(0xDA7Aull << 32 | (unsigned) c);
    tracef("%s choose(%d) = %d\n", tname(self), n, c);
    in_rt = s;
    return c;
}
void pmc_point(const char* label)
{
    if (!controlled()) return;
    in_rt = 1;
    tracef("%s point %s\n", tname(self), label ? label : "");
    focus_point(K_USER, -1, nullptr, nullptr);
    in_rt = 0;
}
void pmc_progress(void)
{
    if (!ctl || self < 0) return;
    int s = in_rt;
    in_rt = 1;
    global_progress();
    in_rt = s;
}
uint64_t pmc_now(void) { return vclock_ns; }
void pmc_deadline(uint64_t abs_ns)
{
    if (ndeadlines < 64 && abs_ns > vclock_ns) deadlines[ndeadlines++] = abs_ns;
}
void pmc_fail(const char* id, const char* fmt, ...)
{
    in_rt = 1;
    char b[1024];
    va_list ap;
    va_start(ap, fmt);
    vsnprintf(b, sizeof b, fmt, ap);
    va_end(ap);
    if (!X) { fprintf(stderr, "PMC_ASSERT failed outside an execution: %s %s\n", id, b); abort(); }
    die(OUT_ASSERT, id, b);
}
void pmc_outcome(const char* fmt, ...)
{
    if (!X) return;
    int s = in_rt;
    in_rt = 1;
    size_t len = strlen(X->outcome_str);
    va_list ap;
    va_start(ap, fmt);
    vsnprintf(X->outcome_str + len, sizeof X->outcome_str - len, fmt, ap);
    va_end(ap);
    uint64_t h = 1469598103934665603ull;
    for (const char* p = X->outcome_str; *p; ++p) { h ^= (unsigned char) *p; h *= 1099511628211ull; }
    X->outcome_hash = h;
    in_rt = s;
}
void pmc_note(const char* fmt, ...)
{
    if (!X || !X->trace_mode) return;
    int s = in_rt;
    in_rt = 1;
    char b[512];
    va_list ap;
    va_start(ap, fmt);
    vsnprintf(b, sizeof b, fmt, ap);
    va_end(ap);
    tracef("%s note: %s\n", tname(self), b);
    in_rt = s;
}
void pmc_name_thread(const char* name)
{
    if (self >= 0) snprintf(R[self].name, sizeof R[self].name, "%s", name);
}
void pmc_focus_pthread(int on) { focus_pthread = on; }
int pmc_self(void) { return self; }
int pmc_controlled(void) { return ctl && self >= 0; }
void pmc_on_stuck(void (*cb)(void)) { stuck_cb = cb; }
void pmc_event_log(int on) { evlog_on = on; if (on) evlog_n = 0; }
void pmc_event_mark(int code)
{
    if (evlog_on && evlog_n < 1024 && self >= 0) evlog[evlog_n++] = EvRec{(uint8_t) self, 0, 0, 255, (uint32_t) code, 0};
}
int pmc_event_count(void) { return evlog_n; }
int pmc_event_get(int i, int* tid, int* kind, int* changed, int* watch, unsigned* off, unsigned long long* val)
{
    if (i < 0 || i >= evlog_n) return 0;
    *tid = evlog[i].tid; *kind = evlog[i].kind; *changed = evlog[i].changed; *watch = evlog[i].watch; *off = evlog[i].off; *val = evlog[i].val;
    return 1;
}
void pmc_set_quantum(long ops) { quantum_cfg = ops; QUANTUM = ops * (X && X->limit_mult ? X->limit_mult : 1); }
void pmc_set_horizon(long ops) { OPS_HORIZON = ops; }
void pmc_set_stuck_rounds(long r) { stuck_cfg = r; STUCK_ROUNDS = r * (X && X->limit_mult ? X->limit_mult : 1); }

void pmc_rt_begin(pmc_exec_rec* rec)
{
    resolve();
    X = rec;
    memset(R, 0, sizeof R);
    nrec = 1;
    self = 0;
    cur = 0;
    rec_len = 0;
    nwatch = 0;
    focus_pthread = 0;
    ndeadlines = 0;
    R[0].st = RUNNABLE;
    R[0].pt = pthread_self();
    snprintf(R[0].name, sizeof R[0].name, "main");
    nops = npoints = nswitch = nfocus_switch = ops_since_switch = 0;
    idle_rounds = total_idle_rounds = 0;
    epoch = 1;
    blockseq = 0;
    trace_hash = 1469598103934665603ull;
    vclock_ns = 1000ull * 1000000000ull;
    last_progress_vclock = vclock_ns;
    int m = rec->limit_mult > 0 ? rec->limit_mult : 1;
    QUANTUM = quantum_cfg * m;
    STUCK_ROUNDS = stuck_cfg * m;
    stuck_cb = nullptr;
    evlog_on = evlog_n = 0;
    cur_sites = nullptr;
    cur_nsites = 0;
    if (rec->spec_index >= 0 && rec->spec_index < MAXSPEC)
    {
        cur_sites = site_tab[rec->spec_index];
        cur_nsites = site_n[rec->spec_index];
        cur_site_mask = site_mask[rec->spec_index];
    }
    rec->done = 0;
    rec->outcome = OUT_NONE;
    rec->nchoices = 0;
    rec->overflow = 0;
    rec->real_alts = 0;
    rec->fail_id[0] = 0;
    rec->msg[0] = 0;
    rec->outcome_str[0] = 0;
    rec->outcome_hash = 0;
    rec->trace_len = 0;
    rec->trace_truncated = 0;
    ctl = 1;
}
void pmc_rt_set_sites(int spec, const uintptr_t* ras, int n, unsigned kindmask)
{
    if (spec < 0 || spec >= MAXSPEC) return;
    site_tab[spec] = ras;
    site_n[spec] = n;
    site_mask[spec] = kindmask;
}
void pmc_rt_set_site_namer(const char* (*fn)(uintptr_t)) { site_namer = fn; }
void pmc_rt_end(void)
{
    in_rt = 1;
    finish(OUT_OK);
}

// ------------------------------------------------------------------------------------------------
// pthread interposition
struct Tramp { int idx; };
static void* tramp(void* p)
{
    int idx = ((Tramp*) p)->idx;
    self = idx;
    fwait(&R[idx].futex);
    free(p);    // only under the token: the first malloc/free of a thread initialises its tcache
    void* r = R[idx].fn(R[idx].arg);
    in_rt = 1;
    R[idx].st = DONE;
    tracef("%s exits\n", tname(idx));
    global_progress();
    wake_waiters(W_JOIN, (void*) (intptr_t) (idx + 1), 0);
    reschedule(1);
    // park until joined: stack/TLS teardown (and arena release) then happens inside the joiner's
    // pthread_join, i.e. at a deterministic point; unjoined threads stay parked until _exit
    fwait(&R[idx].exit_futex);
    return r;
}
int pthread_create(pthread_t* t, const pthread_attr_t* a, void* (*fn)(void*), void* arg)
{
    resolve();
    if (!controlled()) return real_create(t, a, fn, arg);
    in_rt = 1;
    int idx = nrec;
    if (idx >= PMC_MAXT) die(OUT_HARNESS_ERROR, "too-many-threads", "thread table full");
    R[idx].st = RUNNABLE;
    R[idx].fn = fn;
    R[idx].arg = arg;
    R[idx].futex = 0;
    nrec = idx + 1;
    Tramp* tp = (Tramp*) malloc(sizeof(Tramp));
    tp->idx = idx;
    int rc = real_create(t, a, tramp, tp);
    if (rc != 0) die(OUT_HARNESS_ERROR, "pthread_create", "real pthread_create failed");
    R[idx].pt = *t;
    mix(0xC0ull << 32 | (unsigned) idx);
    tracef("%s creates %s\n", tname(self), tname(idx));
    global_progress();
    in_rt = 0;
    return rc;
}
int pthread_join(pthread_t t, void** ret)
{
    resolve();
    if (!controlled()) return real_join(t, ret);
    in_rt = 1;
    int idx = -1;
    for (int i = 0; i < nrec; ++i)
        if (R[i].st != FREE && pthread_equal(R[i].pt, t)) idx = i;
    if (idx >= 0)
    {
        while (R[idx].st != DONE) block_on(W_JOIN, (void*) (intptr_t) (idx + 1), 0);
        fwake(&R[idx].exit_futex);
    }
    int rc = real_join(t, ret);
    in_rt = 0;
    return rc;
}
int pthread_mutex_lock(pthread_mutex_t* m)
{
    resolve();
    if (!controlled()) return real_mlock(m);
    in_rt = 1;
    int w = nwatch ? find_watch(m) : -1;
    if (w >= 0 || focus_pthread) { focus_point(K_LOCK, w, m, __builtin_return_address(0)); }
    for (;;)
    {
        int rc = real_mtrylock(m);
        if (rc != EBUSY)
        {
            if (w >= 0) { mix(0x10Cull << 32 | (unsigned) self); tracef("%s locks %s\n", tname(self), watches[w].name); }
            in_rt = 0;
            return rc;
        }
        block_on(W_MUTEX, m, 0);
    }
}
int pthread_mutex_trylock(pthread_mutex_t* m)
{
    resolve();
    if (!controlled()) return real_mtrylock(m);
    in_rt = 1;
    int w = nwatch ? find_watch(m) : -1;
    if (w >= 0 || focus_pthread) focus_point(K_LOCK, w, m, __builtin_return_address(0));
    int rc = real_mtrylock(m);
    in_rt = 0;
    return rc;
}
int pthread_mutex_unlock(pthread_mutex_t* m)
{
    resolve();
    if (!controlled()) return real_munlock(m);
    in_rt = 1;
    int rc = real_munlock(m);
    int w = nwatch ? find_watch(m) : -1;
    if (w >= 0) { tracef("%s unlocks %s\n", tname(self), watches[w].name); global_progress(); }
    wake_waiters(W_MUTEX, m, 0);
    in_rt = 0;
    return rc;
}
static uint64_t ts_ns(const struct timespec* ts)
{
    return (uint64_t) ts->tv_sec * 1000000000ull + (uint64_t) ts->tv_nsec;
}
static int cond_wait_common(pthread_cond_t* c, pthread_mutex_t* m, uint64_t deadline)
{
    in_rt = 1;
    int watched_timed = deadline && nwatch && find_watch(c) >= 0;
    if (watched_timed) pmc_deadline(deadline);
    real_munlock(m);
    wake_waiters(W_MUTEX, m, 0);
    // early timeout right at the block (cost 1): the timed wait on a watched condition variable times out before
    // any other thread takes another step (a thread parked at a scheduling point in front of the operation that
    // would have satisfied the waiter stays there).  Without it a deadline can only pass at a focus point of a
    // running thread, i.e. after that thread has moved on.
    if (watched_timed && deadline > vclock_ns)
    {
        int others = 0;
        for (int i = 0; i < nrec; ++i)
            if (i != self && R[i].st == RUNNABLE) ++others;
        if (others && take_choice(2, CK_FOCUS, 1) == 1)
        {
            tracef("%s: timed wait times out at once (early timeout)\n", tname(self));
            vclock_ns = deadline + 1;
            wake_passed_deadlines();
        }
    }
    block_on(W_COND, c, deadline ? deadline : 0);
    int to = R[self].timedout;
    R[self].timedout = 0;
    for (;;)
    {
        int rc = real_mtrylock(m);
        if (rc != EBUSY) break;
        block_on(W_MUTEX, m, 0);
    }
    in_rt = 0;
    return to ? ETIMEDOUT : 0;
}
int pthread_cond_wait(pthread_cond_t* c, pthread_mutex_t* m)
{
    resolve();
    if (!controlled()) return real_cwait(c, m);
    return cond_wait_common(c, m, 0);
}
int pthread_cond_timedwait(pthread_cond_t* c, pthread_mutex_t* m, const struct timespec* ts)
{
    resolve();
    if (!controlled()) return real_ctimedwait(c, m, ts);
    uint64_t d = ts_ns(ts);
    return cond_wait_common(c, m, d ? d : 1);
}
int pthread_cond_clockwait(pthread_cond_t* c, pthread_mutex_t* m, clockid_t clk, const struct timespec* ts)
{
    resolve();
    if (!controlled()) return real_cclockwait(c, m, clk, ts);
    uint64_t d = ts_ns(ts);
    return cond_wait_common(c, m, d ? d : 1);
}
int pthread_cond_signal(pthread_cond_t* c)
{
    resolve();
    if (!controlled()) return real_csignal(c);
    in_rt = 1;
    if (focus_pthread || (nwatch && find_watch(c) >= 0)) focus_point(K_LOCK, -1, c, nullptr);
    wake_waiters(W_COND, c, 1);
    in_rt = 0;
    return 0;
}
int pthread_cond_broadcast(pthread_cond_t* c)
{
    resolve();
    if (!controlled()) return real_cbroadcast(c);
    in_rt = 1;
    if (focus_pthread || (nwatch && find_watch(c) >= 0)) focus_point(K_LOCK, -1, c, nullptr);
    wake_waiters(W_COND, c, 0);
    in_rt = 0;
    return 0;
}
int sched_yield(void)
{
    resolve();
    if (!controlled()) return real_yield();
    in_rt = 1;
    tracef("%s sched_yield\n", tname(self));
    do_yield();
    in_rt = 0;
    return 0;
}
static void sleep_ns(uint64_t ns)
{
    in_rt = 1;
    if (ns == 0) { do_yield(); in_rt = 0; return; }
    block_on(W_SLEEP, nullptr, vclock_ns + ns);
    R[self].timedout = 0;
    in_rt = 0;
}
int nanosleep(const struct timespec* rq, struct timespec* rm)
{
    resolve();
    if (!controlled()) return real_nanosleep(rq, rm);
    sleep_ns(ts_ns(rq));
    if (rm) { rm->tv_sec = 0; rm->tv_nsec = 0; }
    return 0;
}
int clock_nanosleep(clockid_t clk, int flags, const struct timespec* rq, struct timespec* rm)
{
    resolve();
    if (!controlled()) return real_clock_nanosleep(clk, flags, rq, rm);
    uint64_t t = ts_ns(rq);
    if (flags & TIMER_ABSTIME) t = t > vclock_ns ? t - vclock_ns : 0;
    sleep_ns(t);
    if (rm) { rm->tv_sec = 0; rm->tv_nsec = 0; }
    return 0;
}
int usleep(useconds_t us)
{
    resolve();
    if (!controlled()) return real_usleep(us);
    sleep_ns((uint64_t) us * 1000ull);
    return 0;
}
int clock_gettime(clockid_t clk, struct timespec* ts)
{
    resolve();
    if (!(ctl && self >= 0 && !in_rt)) return real_clock_gettime(clk, ts);
    {
        // a thread that reads the clock again while nobody else made progress is polling time:
        // let virtual time pass faster and faster (legal: scheduling delays are arbitrary)
        Rec& r = R[self];
        uint64_t others = epoch - r.own_prog;
        if (others == r.poll_others) { if (r.poll_k < 24) ++r.poll_k; }
        else r.poll_k = 0;
        r.poll_others = others;
        uint64_t step = r.poll_k < 3 ? 100 : (1000ull << (r.poll_k - 3));
        if (step > 10000000ull) step = 10000000ull;
        vclock_ns += step;
    }
    for (int i = 0; i < nrec; ++i)
        if (R[i].st == BLOCKED && R[i].deadline && R[i].deadline <= vclock_ns)
        {
            in_rt = 1;
            wake_passed_deadlines();
            in_rt = 0;
            break;
        }
    if (R[self].st == RUNNABLE && ++R[self].clock_polls >= 4)
    {
        // a thread that keeps reading the clock without making progress is polling time
        R[self].clock_polls = 0;
        in_rt = 1;
        tracef("%s polls the clock -> yield\n", tname(self));
        do_yield();
        in_rt = 0;
    }
    ts->tv_sec = (time_t) (vclock_ns / 1000000000ull);
    ts->tv_nsec = (long) (vclock_ns % 1000000000ull);
    return 0;
}
int pthread_once(pthread_once_t* once, void (*fn)(void))
{
    resolve();
    if (!controlled()) return real_once(once, fn);
    // glibc: bit 1 of the control word = done. In-progress state is kept in a side table.
    static pthread_once_t* running[16];
    for (;;)
    {
        if (__atomic_load_n((int*) once, __ATOMIC_ACQUIRE) & 2) return 0;
        int slot = -1, freeslot = -1;
        for (int i = 0; i < 16; ++i)
        {
            if (running[i] == once) slot = i;
            if (!running[i] && freeslot < 0) freeslot = i;
        }
        if (slot < 0)
        {
            if (freeslot < 0) return real_once(once, fn);
            running[freeslot] = once;
            fn();
            __atomic_store_n((int*) once, 2, __ATOMIC_RELEASE);
            running[freeslot] = nullptr;
            in_rt = 1;
            wake_waiters(W_ONCE, once, 0);
            in_rt = 0;
            return 0;
        }
        in_rt = 1;
        block_on(W_ONCE, once, 0);
        in_rt = 0;
    }
}
int __cxa_guard_acquire(uint64_t* g)
{
    resolve();
    if (!controlled()) return real_guard_acquire(g);
    char* b = (char*) g;
    for (;;)
    {
        if (b[0]) return 0;
        if (!b[1]) { b[1] = 1; return 1; }
        in_rt = 1;
        block_on(W_GUARD, g, 0);
        in_rt = 0;
    }
}
void __cxa_guard_release(uint64_t* g)
{
    resolve();
    if (!(ctl && self >= 0 && !in_rt)) { real_guard_release(g); return; }
    char* b = (char*) g;
    __atomic_store_n(&b[0], 1, __ATOMIC_RELEASE);
    b[1] = 0;
    in_rt = 1;
    wake_waiters(W_GUARD, g, 0);
    in_rt = 0;
}
void __cxa_guard_abort(uint64_t* g)
{
    resolve();
    if (!(ctl && self >= 0 && !in_rt)) { real_guard_abort(g); return; }
    char* b = (char*) g;
    b[1] = 0;
    in_rt = 1;
    wake_waiters(W_GUARD, g, 0);
    in_rt = 0;
}

// ------------------------------------------------------------------------------------------------
// atomic hooks (clang -fsanitize=thread with memory-access instrumentation off)
void __tsan_init() {}
#define RA __builtin_return_address(0)
#define DEF(N, T)                                                                                  \
    T __tsan_atomic##N##_load(const volatile T* a, int)                                            \
    {                                                                                              \
        Pre p = pre_op(K_LOAD, a, RA);                                                             \
        T v = __atomic_load_n(a, __ATOMIC_SEQ_CST);                                                \
        if (p.focus) post_op(p, K_LOAD, a, RA, (uint64_t) v, false);                              \
        return v;                                                                                  \
    }                                                                                              \
    void __tsan_atomic##N##_store(volatile T* a, T v, int)                                         \
    {                                                                                              \
        Pre p = pre_op(K_STORE, a, RA);                                                            \
        T o = __atomic_exchange_n(a, v, __ATOMIC_SEQ_CST);                                         \
        note_change(p, o != v);                                                                    \
        if (p.focus) post_op(p, K_STORE, a, RA, (uint64_t) v, o != v);                            \
    }                                                                                              \
    T __tsan_atomic##N##_exchange(volatile T* a, T v, int)                                         \
    {                                                                                              \
        Pre p = pre_op(K_RMW, a, RA);                                                              \
        T o = __atomic_exchange_n(a, v, __ATOMIC_SEQ_CST);                                         \
        note_change(p, o != v);                                                                    \
        if (p.focus) post_op(p, K_RMW, a, RA, (uint64_t) o, o != v);                              \
        return o;                                                                                  \
    }                                                                                              \
    DEFRMW(N, T, fetch_add)                                                                        \
    DEFRMW(N, T, fetch_sub)                                                                        \
    DEFRMW(N, T, fetch_and)                                                                        \
    DEFRMW(N, T, fetch_or)                                                                         \
    DEFRMW(N, T, fetch_xor)                                                                        \
    DEFRMW(N, T, fetch_nand)                                                                       \
    int __tsan_atomic##N##_compare_exchange_strong(volatile T* a, T* c, T v, int, int)             \
    {                                                                                              \
        Pre p = pre_op(K_CAS, a, RA);                                                              \
        T e = *c;                                                                                  \
        int ok = __atomic_compare_exchange_n(a, c, v, false, __ATOMIC_SEQ_CST, __ATOMIC_SEQ_CST);  \
        note_change(p, ok && e != v);                                                              \
        if (p.focus) post_op(p, K_CAS, a, RA, (uint64_t) *c, ok && e != v);                       \
        return ok;                                                                                 \
    }                                                                                              \
    int __tsan_atomic##N##_compare_exchange_weak(volatile T* a, T* c, T v, int, int)               \
    {                                                                                              \
        Pre p = pre_op(K_CAS, a, RA);                                                              \
        T e = *c;                                                                                  \
        int ok = __atomic_compare_exchange_n(a, c, v, false, __ATOMIC_SEQ_CST, __ATOMIC_SEQ_CST);  \
        note_change(p, ok && e != v);                                                              \
        if (p.focus) post_op(p, K_CAS, a, RA, (uint64_t) *c, ok && e != v);                       \
        return ok;                                                                                 \
    }                                                                                              \
    T __tsan_atomic##N##_compare_exchange_val(volatile T* a, T c, T v, int, int)                   \
    {                                                                                              \
        Pre p = pre_op(K_CAS, a, RA);                                                              \
        T e = c;                                                                                   \
        int ok = __atomic_compare_exchange_n(a, &c, v, false, __ATOMIC_SEQ_CST, __ATOMIC_SEQ_CST); \
        note_change(p, ok && e != v);                                                              \
        if (p.focus) post_op(p, K_CAS, a, RA, (uint64_t) c, ok && e != v);                        \
        return c;                                                                                  \
    }
#define DEFRMW(N, T, OP)                                                                           \
    T __tsan_atomic##N##_##OP(volatile T* a, T v, int)                                             \
    {                                                                                              \
        Pre p = pre_op(K_RMW, a, RA);                                                              \
        T o = __atomic_##OP(a, v, __ATOMIC_SEQ_CST);                                               \
        if (!p.skip)                                                                               \
        {                                                                                          \
            T nv = __atomic_load_n(a, __ATOMIC_SEQ_CST);                                           \
            note_change(p, nv != o);                                                               \
            if (p.focus) post_op(p, K_RMW, a, RA, (uint64_t) o, nv != o);                          \
        }                                                                                          \
        return o;                                                                                  \
    }
DEF(8, uint8_t)
DEF(16, uint16_t)
DEF(32, uint32_t)
DEF(64, uint64_t)
DEF(128, u128)

// generic (size-parameterised) libatomic entry points: clang emits these for std::atomic<T> when
// alignof(T) < sizeof(T) (e.g. contiguous_index_queue's range {uint32,uint32}).
static void (*real_ga_load)(size_t, void*, void*, int);
static void (*real_ga_store)(size_t, void*, void*, int);
static void (*real_ga_exchange)(size_t, void*, void*, void*, int);
static bool (*real_ga_cas)(size_t, void*, void*, void*, int, int);
static void resolve_ga()
{
    if (real_ga_load) return;
    int s = in_rt;
    in_rt = 1;
    real_ga_store = (decltype(real_ga_store)) dlsym(RTLD_NEXT, "__atomic_store");
    real_ga_exchange = (decltype(real_ga_exchange)) dlsym(RTLD_NEXT, "__atomic_exchange");
    real_ga_cas = (decltype(real_ga_cas)) dlsym(RTLD_NEXT, "__atomic_compare_exchange");
    real_ga_load = (decltype(real_ga_load)) dlsym(RTLD_NEXT, "__atomic_load");
    in_rt = s;
}
static inline uint64_t lo64(const void* p, size_t n)
{
    uint64_t v = 0;
    memcpy(&v, p, n < 8 ? n : 8);
    return v;
}
void pmc_ga_load(size_t n, void* p, void* ret, int mo) __asm__("__atomic_load");
void pmc_ga_store(size_t n, void* p, void* val, int mo) __asm__("__atomic_store");
void pmc_ga_exchange(size_t n, void* p, void* val, void* ret, int mo) __asm__("__atomic_exchange");
bool pmc_ga_cas(size_t n, void* p, void* exp, void* des, int s, int f) __asm__("__atomic_compare_exchange");
void pmc_ga_load(size_t n, void* p, void* ret, int mo)
{
    resolve_ga();
    if (!controlled()) { real_ga_load(n, p, ret, mo); return; }
    Pre pr = pre_op(K_LOAD, p, RA);
    memcpy(ret, p, n);
    if (pr.focus) post_op(pr, K_LOAD, p, RA, lo64(ret, n), false);
}
void pmc_ga_store(size_t n, void* p, void* val, int mo)
{
    resolve_ga();
    if (!controlled()) { real_ga_store(n, p, val, mo); return; }
    Pre pr = pre_op(K_STORE, p, RA);
    bool ch = memcmp(p, val, n) != 0;
    memcpy(p, val, n);
    note_change(pr, ch);
    if (pr.focus) post_op(pr, K_STORE, p, RA, lo64(val, n), ch);
}
void pmc_ga_exchange(size_t n, void* p, void* val, void* ret, int mo)
{
    resolve_ga();
    if (!controlled()) { real_ga_exchange(n, p, val, ret, mo); return; }
    Pre pr = pre_op(K_RMW, p, RA);
    bool ch = memcmp(p, val, n) != 0;
    char tmp[64];
    memcpy(tmp, p, n <= 64 ? n : 64);
    memcpy(p, val, n);
    memcpy(ret, tmp, n <= 64 ? n : 64);
    note_change(pr, ch);
    if (pr.focus) post_op(pr, K_RMW, p, RA, lo64(ret, n), ch);
}
bool pmc_ga_cas(size_t n, void* p, void* exp, void* des, int s, int f)
{
    resolve_ga();
    if (!controlled()) return real_ga_cas(n, p, exp, des, s, f);
    Pre pr = pre_op(K_CAS, p, RA);
    bool ok = memcmp(p, exp, n) == 0;
    bool ch = ok && memcmp(p, des, n) != 0;
    if (ok) memcpy(p, des, n);
    else memcpy(exp, p, n);
    note_change(pr, ch);
    if (pr.focus) post_op(pr, K_CAS, p, RA, lo64(p, n), ch);
    return ok;
}
// ------------------------------------------------------------------------------------------------
// plain (non-atomic) accesses: only translation units built with memory-access instrumentation call these
// (the MPI polling module in the MPI build: it manipulates plain vectors under a lock, and a change of
// the lock discipline has no atomic operation inside the unprotected region).  An access is a scheduling
// point only if its call site is in the spec's F-site table; everything else returns at once.
static inline void plain_access(int kind, const volatile void* a, const void* ra)
{
    if (!cur_nsites || !(ctl && self >= 0 && !in_rt)) return;
    if (!site_focused(ra, kind)) return;
    Pre p = pre_op(kind, a, ra);
    if (p.focus) { note_change(p, kind == K_STORE); post_op(p, kind, a, ra, 0, kind == K_STORE); }
}
#define PLAIN(N)                                                                                   \
    void __tsan_read##N(void* a) { plain_access(K_LOAD, a, RA); }                                  \
    void __tsan_write##N(void* a) { plain_access(K_STORE, a, RA); }                                \
    void __tsan_unaligned_read##N(void* a) { plain_access(K_LOAD, a, RA); }                        \
    void __tsan_unaligned_write##N(void* a) { plain_access(K_STORE, a, RA); }                      \
    void __tsan_read_write##N(void* a) { plain_access(K_STORE, a, RA); }                           \
    void __tsan_unaligned_read_write##N(void* a) { plain_access(K_STORE, a, RA); }
PLAIN(1) PLAIN(2) PLAIN(4) PLAIN(8) PLAIN(16)
void __tsan_vptr_update(void** a, void*) { plain_access(K_STORE, a, RA); }
void __tsan_vptr_read(void** a) { plain_access(K_LOAD, a, RA); }
void __tsan_read_range(void* a, unsigned long) { plain_access(K_LOAD, a, RA); }
void __tsan_write_range(void* a, unsigned long) { plain_access(K_STORE, a, RA); }
void __tsan_func_entry(void*) {}
void __tsan_func_exit() {}

void __tsan_atomic_thread_fence(int) { __atomic_thread_fence(__ATOMIC_SEQ_CST); }
void __tsan_atomic_signal_fence(int) { __atomic_signal_fence(__ATOMIC_SEQ_CST); }
}
