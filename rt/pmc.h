// pmc — preemption/deviation-bounded stateless model checker over real code.
// Harness-facing API (C linkage; see DESIGN.md §2).
#pragma once
#include <stddef.h>
#include <stdint.h>

#ifdef __cplusplus
extern "C" {
#endif

// ---- inside an execution (called from the harness body, any thread) ----------------------------
// Register [p, p+n) as a focused object: every hooked atomic operation on it is a choice point.
void pmc_watch(const void* p, size_t n, const char* name);
void pmc_unwatch(const void* p);
// Data choice in [0,n): alternatives cost `alt_cost` deviations each (0 = free).
int pmc_choose(int n, int alt_cost);
// Explicit scheduling point on a harness-level pseudo-object (treated like a focused atomic op).
void pmc_point(const char* label);
// Harness-level progress marker (resets the stuck detector).
void pmc_progress(void);
// Virtual clock (ns). pmc_deadline registers an instant the explorer may jump to (early timeout).
uint64_t pmc_now(void);
void pmc_deadline(uint64_t abs_ns);
// Oracle: a failed assertion ends the execution with outcome ASSERT(id).
void pmc_fail(const char* id, const char* fmt, ...) __attribute__((format(printf, 2, 3)));
#define PMC_ASSERT(c, id, ...)                                                                     \
    do {                                                                                           \
        if (!(c)) pmc_fail(id, __VA_ARGS__);                                                       \
    } while (0)
// Free-text observable outcome of this execution (hashed; distinct outcomes are counted).
void pmc_outcome(const char* fmt, ...) __attribute__((format(printf, 1, 2)));
// Trace annotation (kept only in trace mode).
void pmc_note(const char* fmt, ...) __attribute__((format(printf, 1, 2)));
void pmc_name_thread(const char* name);
int pmc_self(void);         // pmc thread index of the caller (0 = main)
int pmc_controlled(void);   // 1 while inside a controlled execution
// Called (in the stuck state, on the thread holding the token) before the execution is ended with
// outcome STUCK; may call pmc_fail with a more specific id, or pmc_note.
void pmc_on_stuck(void (*cb)(void));
// log of the operations on watched objects (for model-conformance projections); marks come from the harness
void pmc_event_log(int on);
void pmc_event_mark(int code);
int pmc_event_count(void);
int pmc_event_get(int i, int* tid, int* kind, int* changed, int* watch, unsigned* off, unsigned long long* val);    // kind: 1 load 2 store 3 rmw 4 cas, 0 mark (off = code)
// Tunables (call before the body creates threads).
// Make every pthread mutex lock / trylock / cond signal a focused point (for pmc-os harnesses).
void pmc_focus_pthread(int on);
void pmc_set_quantum(long ops);
void pmc_set_stuck_rounds(long rounds);
// Horizon: an execution performing more hooked atomic operations than this is reported as stuck
// (livelock); default 6 000 000 (normal executions need 10^4..10^5).
void pmc_set_horizon(long ops);

// ---- driver -----------------------------------------------------------------------------------
typedef struct pmc_spec
{
    const char* name;           // harness variant name (evidence, replay files, known-finding keys)
    void (*run)(void);          // one complete execution (creates and joins everything)
    int quick_bound;            // deviation bound attempted in the quick tier
    int thorough_bound;         // ... in the thorough tier
    double quick_share;         // share of the tier's wall budget (0 => equal shares)
    double thorough_share;
    int min_alternatives;       // fail closed (exit 2) if fewer executions had a real alternative
    const char* focus_desc;     // description of the focus for the evidence file
    const char* focus_sites;    // F-site: POSIX extended regex over the inlined call chain of each
                                // atomic-hook call site ("func@file:line <- ..."); NULL = none
    const char* focus_kinds;    // subset of "lsrc" (load, store, rmw, cas) for F-site; NULL = all
    const char* focus_plain;    // F-site regex for plain (non-atomic) access sites; only translation units
                                // built with memory-access instrumentation have such sites; NULL = none
} pmc_spec;

typedef struct pmc_config
{
    const char* property_id;
    const char* rule;           // evidence: how cases are enumerated
    const char* const* assumptions;
    int n_assumptions;
    void (*warmup)(void);       // run once, uncontrolled, before anything is forked
    double quick_budget_s;      // wall budget of the whole quick tier for this binary
    double thorough_budget_s;
    double exec_timeout_s;      // wall limit for a single execution (default 20)
    int free_block_bound;       // max. number of non-default successor choices at blocking points per
                                // execution (they cost no deviation); 0 = unlimited
} pmc_config;

// Parses --tier quick|thorough, --replay <file>, --jobs N, --bound K, --budget S, --only <spec>,
// --evidence <file>, --part <label>. Returns the process exit status (0 / 1 / 2).
int pmc_main(int argc, char** argv, const pmc_config* cfg, const pmc_spec* specs, int nspecs);

#ifdef __cplusplus
}
#endif
