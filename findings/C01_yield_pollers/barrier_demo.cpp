#include <pika/init.hpp>
#include <pika/execution.hpp>
#include <pika/barrier.hpp>
#include <pika/thread.hpp>
#include <atomic>
#include <cstdio>
#include <thread>
#include <vector>
namespace ex = pika::execution::experimental;
namespace tt = pika::this_thread::experimental;
static std::atomic<long> at[8];
static std::atomic<int> done{0}; static std::atomic<int> arrived{0}; static std::atomic<int> started[8];
int main(int argc, char** argv)
{
    pika::start(argc, argv);
    int const P = 4; long const phases = 20000;
    std::thread wd([&] {
        long last[8] = {0}; int same = 0;
        while (!done) {
            std::this_thread::sleep_for(std::chrono::seconds(2));
            bool moved = false;
            for (int i = 0; i < P; ++i) { if (at[i] != last[i]) moved = true; last[i] = at[i]; }
            if (!moved && !done) { if (++same >= 3) { std::printf("HANG: phases reached per participant: %ld %ld %ld %ld; arrivals %d; started %d %d %d %d\n", at[0].load(), at[1].load(), at[2].load(), at[3].load(), arrived.load(), started[0].load(), started[1].load(), started[2].load(), started[3].load()); std::fflush(stdout); _exit(1); } } else same = 0;
        }
    });
    tt::sync_wait(ex::schedule(ex::thread_pool_scheduler{}) | ex::then([&] {
        pika::barrier<> b(P);
        std::vector<pika::thread> ts;
        for (int i = 0; i < P; ++i) ts.emplace_back([&, i] { started[i] = 1; for (long k = 0; k < phases; ++k) { ++arrived; b.arrive_and_wait(); at[i] = k + 1; } });
        for (auto& t : ts) t.join();
    }));
    done = 1; wd.join();
    std::printf("OK\n");
    pika::finalize();
    return pika::stop();
}
