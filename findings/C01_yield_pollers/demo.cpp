#include <pika/init.hpp>
#include <pika/execution.hpp>
#include <pika/thread.hpp>
#include <atomic>
#include <cstdio>
#include <thread>
#include <vector>
#include <cstring>
namespace ex = pika::execution::experimental;
namespace tt = pika::this_thread::experimental;
static std::atomic<int> announced{0}, done{0}, started[8], finished{0};
static int mode = 0;
int main(int argc, char** argv)
{
    for (int i = 1; i < argc; ++i) if (!strncmp(argv[i], "--mode=", 7)) mode = atoi(argv[i] + 7);
    pika::start(argc, argv);
    int const P = 4;
    std::thread wd([&] { for (int s = 0; s < 10 && !done; ++s) std::this_thread::sleep_for(std::chrono::seconds(1)); if (!done) { std::printf("HANG mode=%d: announced %d; started %d %d %d %d\n", mode, announced.load(), started[0].load(), started[1].load(), started[2].load(), started[3].load()); std::fflush(stdout); _exit(1); } });
    tt::sync_wait(ex::schedule(ex::thread_pool_scheduler{}) | ex::then([&] {
        std::vector<pika::thread> ts;
        for (int i = 0; i < P; ++i) ts.emplace_back([&, i] {
            started[i] = 1; ++announced;
            if (mode == 0) pika::util::yield_while([] { return announced.load() < 4; }, "poll");
            else if (mode == 1) while (announced.load() < 4) pika::this_thread::yield();                       // plain pending yields only
            else while (announced.load() < 4) pika::execution::this_thread::detail::yield_k(17, "boost");      // boosted yields only
        });
        for (auto& t : ts) t.join();
    }));
    done = 1; wd.join();
    std::printf("OK mode=%d\n", mode);
    pika::finalize();
    return pika::stop();
}
