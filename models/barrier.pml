/* pika::barrier (libs/pika/synchronization: barrier.hpp + src/barrier.cpp), one Promela process per
 * participant, one transition per atomic operation of the implementation:
 *   arrive():            old = phase.load                                   event P
 *     base.arrive():     CAS on ticket[node][round] (old->half, half->full, old->full)   event C
 *     last arrival:      completion(); expected += adj.load (A); adj.store(0) (Z); phase.store(old+2) (S)
 *   arrive_and_drop():   adj.fetch_sub(1) (D), then arrive()
 *   wait(old):           blocks until phase != old                          event W
 * Plain (non-atomic) accesses (`expected`) happen together with the neighbouring atomic operation, as
 * they do under the serialising scheduler the model is compared with.
 *
 * Parameters (-D): N participants, PH phases per participant, PHASE0 initial phase byte, DROPPER
 * (participant that calls arrive_and_drop in its first phase, 255 = none), ANYSTART (start node chosen
 * nondeterministically, as with pika tasks whose start node is a hash; otherwise node 0 as on plain
 * OS threads), HIST (record the event history and print it when all participants are done: used for
 * the conformance comparison with the implementation, every history is a distinct state).           */
#ifndef N
#define N 3
#endif
#ifndef PH
#define PH 2
#endif
#ifndef PHASE0
#define PHASE0 0
#endif
#ifndef DROPPER
#define DROPPER 255
#endif
#define NODES ((N+1)/2)
#define ROUNDS 4
#define T(n, r) ticket[(n)*ROUNDS + (r)]

byte ticket[NODES*ROUNDS];
byte phase = PHASE0;
short expected = N;
short adj = 0;

/* ghost state for the properties */
byte arrived[PH];
byte completions = 0;
byte ndone = 0;
byte nexp[PH];       /* participants expected in phase k */

#ifdef HIST
#define HMAX 96
byte h_p[HMAX]; byte h_c[HMAX]; byte h_a[HMAX]; byte h_b[HMAX]; short h_v[HMAX];
byte hn = 0;
#define EV(p, c, a, b, v) h_p[hn] = p; h_c[hn] = c; h_a[hn] = a; h_b[hn] = b; h_v[hn] = v; hn++
#else
#define EV(p, c, a, b, v) skip
#endif

proctype Participant(byte me)
{
    byte k = 0, old, cur, round, obs, hstep, fstep;
    short curexp, endn, lastn;
    bool last, out;
    do
    :: k < PH ->
        if
        :: (me == DROPPER && k == 0) -> d_step { EV(me, 3, 0, 0, adj); adj = adj - 1 }
        :: else -> skip
        fi;
        /* arrive(): load the phase; `expected` is read as the argument of base.arrive right after */
        d_step { old = phase; curexp = expected; arrived[k]++; EV(me, 1, 0, 0, old);
                 hstep = (old + 1) % 256; fstep = (old + 2) % 256; round = 0; last = false; out = false;
#ifdef ANYSTART
                 cur = 0
#else
                 cur = 0
#endif
               }
#ifdef ANYSTART
        if
        :: true -> cur = 0
        :: NODES > 1 -> cur = 1
        :: NODES > 2 -> cur = 2
        fi;
#endif
        do
        :: curexp <= 1 -> last = true; break
        :: else ->
            endn = (curexp + 1) / 2; lastn = endn - 1;
            do
            :: true ->
                if :: cur == endn -> cur = 0 :: else -> skip fi;
                assert(cur < NODES && round < ROUNDS);
                if
                :: (cur == lastn && (curexp % 2 == 1)) ->
                    /* odd one out: old -> full */
                    d_step { obs = T(cur, round);
                             if :: obs == old -> T(cur, round) = fstep; EV(me, 2, cur, round, obs + 1000) :: else -> EV(me, 2, cur, round, obs) fi }
                    if :: obs == old -> break :: else -> cur++ fi
                :: else ->
                    d_step { obs = T(cur, round);
                             if :: obs == old -> T(cur, round) = hstep; EV(me, 2, cur, round, obs + 1000) :: else -> EV(me, 2, cur, round, obs) fi }
                    if
                    :: obs == old -> out = true; break          /* 1 in 2: done with the arrival */
                    :: obs != old && obs == hstep ->
                        d_step { obs = T(cur, round);
                                 if :: obs == hstep -> T(cur, round) = fstep; EV(me, 2, cur, round, obs + 1000) :: else -> EV(me, 2, cur, round, obs) fi }
                        if :: obs == hstep -> break :: else -> cur++ fi    /* 2 in 2: next round */
                    :: else -> cur++
                    fi
                fi
            od;
            if :: out -> break :: else -> skip fi;
            curexp = lastn + 1; cur = cur / 2; round++
        od;
        if
        :: last && !out ->
            /* completion step of the phase */
            d_step { assert(completions == k);             /* once per phase, phases in order */
                     assert(arrived[k] == nexp[k]);        /* only after all expected arrivals */
                     completions++;
                     EV(me, 4, 0, 0, adj); expected = expected + adj }
            d_step { adj = 0; EV(me, 5, 0, 0, 0) }
            d_step { phase = fstep; EV(me, 6, 0, 0, fstep) }
        :: else -> skip
        fi;
        if
        :: (me == DROPPER && k == 0) -> break
        :: else ->
            /* wait(old) */
            d_step { (phase != old) -> EV(me, 7, 0, 0, phase);
                     assert(arrived[k] == nexp[k]);        /* nobody leaves phase k early */
                     assert(completions >= k + 1) }        /* ... nor before its completion ran */
        fi;
        k++
    :: else -> break
    od;
    ndone++
}

init
{
    byte i;
    d_step {
        for (i : 0 .. (NODES*ROUNDS - 1)) { ticket[i] = PHASE0 }
        for (i : 0 .. (PH - 1)) { nexp[i] = N }
        if :: DROPPER != 255 -> for (i : 1 .. (PH - 1)) { nexp[i] = N - 1 } :: else -> skip fi
    }
    atomic { for (i : 0 .. (N - 1)) { run Participant(i) } }
#ifdef HIST
    (ndone == N);
    c_code {
        int i;
        for (i = 0; i < now.hn; ++i)
        {
            int p = now.h_p[i], c = now.h_c[i], a = now.h_a[i], b = now.h_b[i], v = now.h_v[i];
            switch (c)
            {
            case 1: printf("%dP%d ", p, v); break;
            case 2: printf("%dC%d%d:%d%c ", p, a, b, v >= 1000 ? v - 1000 : v, v >= 1000 ? '+' : '-'); break;
            case 3: printf("%dD%d ", p, v); break;
            case 4: printf("%dA%d ", p, v); break;
            case 5: printf("%dZ ", p); break;
            case 6: printf("%dS%d ", p, v); break;
            case 7: printf("%dW%d ", p, v); break;
            }
        }
        printf("\n");
    }
#endif
}
