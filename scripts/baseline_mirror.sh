#!/bin/bash
# Pinned test-suite with a patch applied, on a scratch mirror of /repo (so that /repo stays untouched and
# checks can keep running).  usage: baseline_mirror.sh setup | run <patch.diff> | remove
# The mirror is a git worktree of /repo's HEAD in /tmp/bl/src with its own _build, configured like
# /repo/_build; `setup` also runs the suite once unpatched to show that the mirror reproduces the baseline.
set -u
M=/tmp/bl/src
junit_check() {
python3 - "$1" <<'PY'
import json, sys, xml.etree.ElementTree as ET
base = json.load(open('/root/.vp/BASELINE.json'))
stable = set(x.split('::')[0] for x in base['stable_pass'])
t = ET.parse(sys.argv[1]).getroot()
passed = set()
for tc in t.iter('testcase'):
    st = tc.get('status')
    failed = tc.find('failure') is not None or st in ('fail', 'failed')
    if not failed and st != 'notrun': passed.add(tc.get('name'))
missing = sorted(stable - passed)
print(f"stable_pass tests: {len(stable)}, passing: {len(stable & passed)}")
if missing: print("NOT PASSING:", missing[:10])
sys.exit(1 if missing else 0)
PY
}
case "${1:-}" in
setup)
    mkdir -p /tmp/bl
    [ -d $M ] || git -C /repo worktree add --detach $M HEAD > /dev/null 2>&1 || exit 2
    cmake -G Ninja -S $M -B $M/_build -DCMAKE_BUILD_TYPE=RelWithDebInfo -DPIKA_WITH_TESTS=ON -DPIKA_WITH_COMPILE_ONLY_TESTS=ON -DPIKA_WITH_FAIL_COMPILE_TESTS=ON \
        -DPIKA_WITH_MALLOC=mimalloc -DPIKA_WITH_UNITY_BUILD=ON -DPIKA_WITH_EXAMPLES=OFF -DCMAKE_CXX_FLAGS=-Wno-error -DPIKA_WITH_ADDITIONAL_HWLOC_TESTING=ON > /tmp/bl/configure.log 2>&1 || { tail -5 /tmp/bl/configure.log; exit 2; }
    ctest --test-dir $M/_build -j16 --timeout 900 --output-junit /tmp/bl/junit0.xml > /tmp/bl/ctest0.log 2>&1
    junit_check /tmp/bl/junit0.xml ;;
run)
    P=$(readlink -f "$2")
    git -C $M checkout -q -- . ; git -C $M apply "$P" || { echo "patch does not apply"; exit 2; }
    ctest --test-dir $M/_build -j16 --timeout 900 --output-junit /tmp/bl/junit1.xml > /tmp/bl/ctest1.log 2>&1
    git -C $M checkout -q -- .
    junit_check /tmp/bl/junit1.xml ;;
remove)
    git -C /repo worktree remove --force $M 2>/dev/null; rm -rf /tmp/bl; git -C /repo worktree prune ;;
*) echo "usage: $0 setup | run <patch> | remove"; exit 2 ;;
esac
