#!/bin/bash
# Engine self-checks (DESIGN.md §8): toy programs with a known verdict.
cd "$(dirname "$0")/.."
./scripts/build_rt.sh || exit 2
INSTR="-fsanitize=thread -mllvm -tsan-instrument-memory-accesses=0 -mllvm -tsan-instrument-func-entry-exit=0 -mllvm -tsan-instrument-memintrinsics=0 -Wno-unused-command-line-argument"
mkdir -p build/h
clang++-14 -std=c++20 -O1 -g $INSTR -Irt -c harness/selftest.cpp -o build/h/selftest.o && clang++-14 build/h/selftest.o -o build/h/selftest -Lbuild -lpmcrt -Wl,-rpath,$PWD/build -pthread || exit 2
fail=0
expect() { # spec expected-rc expected-key
  out=$(./build/h/selftest --only $1 --replay-dir build/selftest-replays 2>/dev/null); rc=$?
  key=$(echo "$out" | grep -o "key=[^ ]*" | head -1)
  if [ "$rc" != "$2" ] || { [ -n "$3" ] && [ "$key" != "key=$3" ]; }; then echo "SELFTEST FAILED: $1 rc=$rc $key (expected rc=$2 key=$3)"; fail=1; else echo "ok: $1 rc=$rc $key"; fi
}
expect lost_update 1 lost_update/lost-update
expect good_counter 0 ""
expect abba 1 abba/deadlock
expect missed_signal 1 missed_signal/deadlock
expect good_cv 0 ""
expect livelock 1 livelock/stuck
expect timed 0 ""
exit $fail
