#!/opt/veriftools/pyvenv/bin/python3
import json, sys, jsonschema, glob
m = json.load(open('/verif/MANIFEST.json'))
jsonschema.validate(m, json.load(open('/root/.vp/MANIFEST.schema.json')))
es = json.load(open('/root/.vp/EVIDENCE.schema.json'))
for f in sorted(glob.glob('/verif/evidence/*.json')):
    e = json.load(open(f))
    jsonschema.validate(e, es)
    c = e['coverage']
    print(f, 'ok', e['tier'], 'states', c.get('states'), 'exhaustive', c.get('exhaustive'), 'wall', e['wall_s'])
ids = {c['property_id'] for c in m['checks']} | {n['property_id'] for n in m.get('not_applicable', [])}
props = [json.loads(l)['id'] for l in open('/verif/properties.jsonl')]
assert set(props) == ids, (set(props) ^ ids)
print('manifest ok:', len(m['checks']), 'checks,', len(m.get('not_applicable', [])), 'not applicable')
