#!/bin/bash
# usage: run_all.sh <quick|thorough> [ids...]  -- runs the checks one after the other, prints a summary
cd "$(dirname "$0")/.."
T=${1:-quick}; shift
[ -f build/libpmcrt.so ] || ./setup.sh > build-setup.log 2>&1 || { echo "setup failed"; tail -20 build-setup.log; exit 2; }
IDS=${@:-$(python3 -c "
import json; print(' '.join(c['property_id'] for c in json.load(open('MANIFEST.json'))['checks']))")}
mkdir -p build
for id in $IDS; do
  s=$(date +%s)
  ./check $id --tier $T > build/run_all.$id.out 2> build/run_all.$id.err; rc=$?
  e=$(( $(date +%s) - s ))
  ex=$(python3 -c "
import json
try:
    e=json.load(open('evidence/$id.json')); c=e['coverage']; print('exhaustive=%s states=%s tier=%s' % (c.get('exhaustive'), c.get('states'), e.get('tier')))
except Exception as x: print('no evidence', x)")
  echo "$id tier=$T rc=$rc wall=${e}s $ex $(grep -c '^VIOLATION' build/run_all.$id.out) violations $(grep -c '^KNOWN-FINDING' build/run_all.$id.out) known"
done
