#!/bin/bash
# build libpmcrt.so (scheduler + explorer); plain g++, not instrumented
set -e
V=$(cd "$(dirname "$0")/.." && pwd)
mkdir -p $V/build
if [ ! -f $V/build/libpmcrt.so ] || [ -n "$(find $V/rt -newer $V/build/libpmcrt.so -name '*.*' | head -1)" ]; then
  g++ -std=c++17 -O2 -g -fPIC -shared -mcx16 -Wall -Wextra -Wno-unused-parameter $V/rt/pmcrt.cpp $V/rt/explore.cpp -o $V/build/libpmcrt.so.tmp -ldl -latomic
  mv $V/build/libpmcrt.so.tmp $V/build/libpmcrt.so
fi
