#!/bin/bash
# usage: try_seed.sh <property> <patch.diff> [tier]  -- apply to /repo, run the check, always revert
P=$(readlink -f "$2"); T=${3:-quick}
cd /verif
git -C /repo apply "$P" || { echo "patch does not apply"; exit 2; }
trap 'git -C /repo checkout -- . ' EXIT
START=$(date +%s)
./check "$1" --tier $T 2>/tmp/try_seed.err | grep -E "VIOLATION|KNOWN-FINDING" ; rc=${PIPESTATUS[0]}
echo "check rc=$rc in $(( $(date +%s) - START )) s"; grep -E "key=|undecided|error" /tmp/try_seed.err | head -5
