#!/bin/bash
# usage: baseline_with_patch.sh <patch.diff>  -- applies the patch to /repo, runs the pinned test-suite,
# reports how many of the 271 stable-pass tests still pass, and reverts /repo.
set -u
P=$(readlink -f "$1")
git -C /repo apply "$P" || { echo "patch does not apply"; exit 2; }
J=/tmp/junit_$$.xml
ctest --test-dir /repo/_build -j16 --timeout 900 --output-junit $J > /tmp/ctest_$$.log 2>&1
git -C /repo checkout -- .
python3 - $J <<'PY'
import json, sys, xml.etree.ElementTree as ET
base = json.load(open('/root/.vp/BASELINE.json'))
stable = set(x.split('::')[0] for x in base['stable_pass'])
t = ET.parse(sys.argv[1]).getroot()
passed = set()
for tc in t.iter('testcase'):
    st = tc.get('status')
    failed = tc.find('failure') is not None or st in ('fail', 'failed')
    if not failed and st != 'notrun': passed.add(tc.get('name'))
missing = sorted(stable - passed)
print(f"stable_pass tests: {len(stable)}, still passing with the patch: {len(stable & passed)}")
if missing: print("NO LONGER PASSING:", missing[:10])
sys.exit(1 if missing else 0)
PY
rc=$?
rm -f $J /tmp/ctest_$$.log
exit $rc
