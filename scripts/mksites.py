#!/usr/bin/env python3
"""Static site table: every call to an atomic hook (__tsan_atomic*, generic __atomic_*) in a binary,
with its inlined call chain.  Output (one line per site):  <hex return address offset>\t<hook>\t<chain>
chain = innermost first:  func@file:line <- func@file:line <- ...
usage: mksites.py <binary> <out>"""
import re, subprocess, sys, os
binf, out = sys.argv[1], sys.argv[2]
dis = subprocess.run(['objdump', '-d', '--no-show-raw-insn', binf], capture_output=True, text=True).stdout
pat = re.compile(r'^\s*([0-9a-f]+):\s+call\s+[0-9a-f]+ <(__tsan_atomic[0-9a-z_]+|__atomic_(?:load|store|exchange|compare_exchange)|__tsan_(?:unaligned_)?(?:read|write|read_write)(?:1|2|4|8|16)|__tsan_vptr_(?:update|read)|__tsan_(?:read|write)_range)(?:@plt)?>')
sites = []
for line in dis.splitlines():
    m = pat.match(line)
    if m:
        sites.append((int(m.group(1), 16), m.group(2)))
if not sites:
    open(out, 'w').close(); sys.exit(0)
inp = '\n'.join(hex(a) for a, _ in sites) + '\n'
sym = subprocess.run(['llvm-symbolizer-14', '--inlines', '--obj=' + binf, '--output-style=LLVM', '--demangle'],
                     input=inp, capture_output=True, text=True).stdout
blocks = sym.strip('\n').split('\n\n')
def short(path):
    i = path.find('/libs/pika/')
    if i >= 0: return path[i + 11:]
    return os.path.basename(path)
with open(out + '.tmp', 'w') as f:
    for (addr, hook), blk in zip(sites, blocks):
        lines = blk.split('\n')
        chain = []
        for i in range(0, len(lines) - 1, 2):
            fn = lines[i].strip()
            loc = lines[i + 1].strip()
            mm = re.match(r'(.*):(\d+):\d+$', loc)
            fl = f"{short(mm.group(1))}:{mm.group(2)}" if mm else loc
            fn = re.sub(r'\s+', ' ', fn)
            chain.append(f"{fn}@{fl}")
        # skip std:: atomic wrapper frames at the front for readability, keep full chain for matching
        f.write(f"{addr + 5:x}\t{hook}\t{' <- '.join(chain)}\n")
os.replace(out + '.tmp', out)
