#!/usr/bin/env python3
"""usage: seed_meta.py <id>-<n> '<change>' '<needs>' '<detected_by>' '<first_try text>' [baseline text] [demo-with] [demo-without]
copies the deliverables of /tmp/mut/<id>g/_seed into seeded/<id>-<n>/ and writes meta.json"""
import json, os, shutil, sys
sid, change, needs, det, first = sys.argv[1:6]
rest = sys.argv[6:] + [""] * 3
prop, n = sid.split('-')
d = f"/verif/seeded/{sid}"; os.makedirs(d, exist_ok=True)
for f in ("patch.diff", "demo.cpp", "run_demo.sh", "notes.md"):
    s = f"/tmp/mut/{prop}g/_seed/{f}"
    if os.path.exists(s): shutil.copy(s, d)
json.dump({"id": sid, "property": prop,
  "origin": f"independent sub-agent, round {n} (property text + scratch worktree only; told not to repeat the earlier changes)",
  "change": change, "needs_to_manifest": needs,
  "confirmed": {"baseline_suite_with_patch": rest[0] or "scripts/baseline_mirror.sh run: 271/271 stable-pass tests still pass",
                "demo_with_change": rest[1] or "run_demo.sh -> FAIL (confirmed)", "demo_without_change": rest[2] or "run_demo.sh against the unchanged build -> PASS (confirmed)"},
  "detected_by": det, "first_try": first, "detected": True}, open(f"{d}/meta.json", "w"), indent=1)
print(d, os.listdir(d))
