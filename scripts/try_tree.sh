#!/bin/bash
# usage: try_tree.sh <property> <source tree with a change applied> [tier]
# Runs the check against another source tree in its own build directories (build/*-alt), /repo untouched.
# The evidence file of the property is restored afterwards.
cd "$(dirname "$0")/.."
P=$1; SRC=$(readlink -f "$2"); T=${3:-quick}
cp evidence/$P.json /tmp/evidence.$P.$$ 2>/dev/null
START=$(date +%s)
VERIF_PIKA_SRC=$SRC VERIF_BUILD_TAG=-alt-$(basename $SRC) ./check $P --tier $T 2>/tmp/try_tree.err | grep -E "VIOLATION|KNOWN-FINDING" | cut -c1-300; rc=${PIPESTATUS[0]}
echo "check rc=$rc in $(( $(date +%s) - START )) s"; grep -E "key=|undecided|error" /tmp/try_tree.err | head -5 | cut -c1-400
[ -f /tmp/evidence.$P.$$ ] && mv /tmp/evidence.$P.$$ evidence/$P.json
