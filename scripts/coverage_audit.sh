#!/bin/bash
# Driver-gap audit: which lines / functions of the code each property is anchored in does the check's own
# harness never execute?  Builds a second copy of the instrumented library and of the property's harness
# binaries with clang source-based coverage (build/pika-mc-cov, build/h-cov), runs the check's quick tier
# with the deviation bound capped (default 0: the default schedule of every data choice; code that only
# runs under a pre-emption is then reported as uncovered and has to be judged by hand), merges the profiles and
# writes coverage/<id>.txt: per anchored source file the uncovered functions and the uncovered line ranges.
# It is an aid for writing drivers, not a check: nothing here decides a property.
# usage: coverage_audit.sh <property> [bound]       (evidence/<id>.json is restored afterwards)
set -u
cd "$(dirname "$0")/.."
V=$PWD; P=$1; BOUND=${2:-0}
D=$V/build/cov/$P; rm -rf $D; mkdir -p $D $V/coverage
cp evidence/$P.json $D/evidence.saved 2>/dev/null
export VERIF_COV=1 VERIF_BUILD_TAG=-cov LLVM_PROFILE_FILE="$D/p-%8m.profraw"
./check $P --tier quick --bound $BOUND > $D/check.out 2> $D/check.err; rc=$?
[ -f $D/evidence.saved ] && cp $D/evidence.saved evidence/$P.json
unset LLVM_PROFILE_FILE
echo "check rc=$rc ($(grep -c . $D/check.out) output lines)"
ls $D/*.profraw > /dev/null 2>&1 || { echo "no profiles written"; tail -5 $D/check.err; exit 2; }
llvm-profdata-14 merge -sparse $D/*.profraw -o $D/merged.profdata 2> $D/merge.err || { cat $D/merge.err | head; exit 2; }
rm -f $D/*.profraw
python3 - "$P" "$D" <<'PY'
import json, os, re, subprocess, sys
pid, D = sys.argv[1], sys.argv[2]
V = os.getcwd()
sys.path.insert(0, V)
from checks import CHECKS
prop = [json.loads(l) for l in open('properties.jsonl') if json.loads(l)['id'] == pid][0]
files = set()
def walk(o):
    if isinstance(o, dict):
        for v in o.values(): walk(v)
    elif isinstance(o, list):
        for v in o: walk(v)
    elif isinstance(o, str):
        for m in re.finditer(r'(libs/pika/[\w/.\-]+\.(?:hpp|cpp|h))', o): files.add(m.group(1))
walk(prop.get('anchors', prop))
objs = []
for p in CHECKS[pid]['parts']:
    if p.get('kind') == 'script': continue
    b = p.get('pika_build', 'pika-mc')
    out = f"{V}/build/" + ('h' if b == 'pika-mc' else 'h-' + b) + '-cov'
    if os.path.exists(f"{out}/{p['bin']}"): objs.append(f"{out}/{p['bin']}")
    lib = os.path.realpath(f"{V}/build/{b}-cov/lib/libpika.so") if os.path.exists(f"{V}/build/{b}-cov/lib/libpika.so") else os.path.realpath(f"{V}/build/{b}-cov/lib/libpikad.so")
    if lib not in objs: objs.append(lib)
objs = list(dict.fromkeys(objs))
args = []
for o in objs: args += ['-object', o]
srcs = ['/repo/' + f for f in sorted(files) if os.path.exists('/repo/' + f)]
r = subprocess.run(['llvm-cov-14', 'export', '-format=text', '-instr-profile', f'{D}/merged.profdata', '-skip-expansions'] + args[1:] + srcs,
                   capture_output=True, text=True)
if r.returncode: print(r.stderr[:2000]); sys.exit(2)
j = json.loads(r.stdout)
out = [f"# coverage audit {pid}: anchored files, quick tier, deviation bound capped; objects: " + ', '.join(os.path.basename(o) for o in objs)]
data = j['data'][0]
# functions: uncovered = count 0 in every instantiation
fun = {}
for f in data.get('functions', []):
    fn = f['filenames'][0]
    if fn not in srcs: continue
    r0 = f['regions'][0]
    key = (fn, r0[0])
    name = subprocess.run(['c++filt', '-p', f['name'].split(':')[-1]], capture_output=True, text=True).stdout.strip() if False else f['name']
    e = fun.setdefault(key, [name, 0, r0[2]])
    e[1] += f['count']
for fl in data['files']:
    fn = fl['filename']
    if fn not in srcs: continue
    s = fl['summary']
    out.append(f"\n== {fn[6:]}  lines {s['lines']['covered']}/{s['lines']['count']}  functions {s['functions']['covered']}/{s['functions']['count']}")
    # line coverage from segments
    segs = fl['segments']   # [line, col, count, hasCount, isRegionEntry, isGap]
    src = open(fn).read().split('\n')
    unc = set()
    for i, sg in enumerate(segs):
        line, col, cnt, has = sg[0], sg[1], sg[2], sg[3]
        if not has or cnt != 0 or (len(sg) > 5 and sg[5]): continue
        end = segs[i + 1][0] if i + 1 < len(segs) else line
        endcol = segs[i + 1][1] if i + 1 < len(segs) else 0
        for l in range(line, end + 1):
            if l == end and endcol <= 1 and l != line: continue
            unc.add(l)
    unc = sorted(l for l in unc if l <= len(src) and src[l - 1].strip() and not src[l - 1].strip().startswith('//') and src[l - 1].strip() not in ('{', '}', '};'))
    ufun = sorted((k[1], v) for k, v in fun.items() if k[0] == fn and v[1] == 0)
    for ln, v in ufun:
        out.append(f"  never called: line {ln}-{v[2]}: {src[ln-1].strip()[:110]}")
    infun = set()
    for ln, v in ufun: infun.update(range(ln, v[2] + 1))
    rest = [l for l in unc if l not in infun]
    # group ranges
    i = 0
    while i < len(rest):
        j2 = i
        while j2 + 1 < len(rest) and rest[j2 + 1] - rest[j2] <= 2: j2 += 1
        out.append(f"  uncovered {rest[i]}-{rest[j2]}: {src[rest[i]-1].strip()[:110]}")
        i = j2 + 1
open(f'coverage/{pid}.txt', 'w').write('\n'.join(out) + '\n')
print(f"coverage/{pid}.txt: {len(out)} lines")
PY
