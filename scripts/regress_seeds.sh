#!/bin/bash
# Re-runs the quick check of every seeded change (seeded/<id>-<n>/patch.diff) against a scratch worktree of
# /repo with the patch applied (one worktree, re-used incrementally) and reports whether it is still detected.
# usage: regress_seeds.sh [seed-dir ...]   (default: all)   -- /repo itself is never touched
cd "$(dirname "$0")/.."
W=/tmp/mut/regress
mkdir -p /tmp/mut
[ -d $W ] || git -C /repo worktree add --detach $W HEAD > /dev/null 2>&1 || exit 2
git -C $W checkout -q --detach $(git -C /repo rev-parse HEAD) 2>/dev/null
SEEDS=${@:-$(ls -d seeded/C*-* | sort)}
for d in $SEEDS; do
  id=$(basename $d); prop=${id%%-*}
  git -C $W reset -q --hard HEAD; git -C $W clean -fdq 2>/dev/null
  if ! git -C $W apply $PWD/$d/patch.diff > /dev/null 2>&1 && ! (cd $W && patch -p1 -s -F3 --no-backup-if-mismatch < $OLDPWD/$d/patch.diff > /dev/null 2>&1); then echo "$id: patch does not apply to HEAD"; continue; fi
  out=$(nice -n 5 ./scripts/try_tree.sh $prop $W 2>&1)
  v=$(echo "$out" | grep -c "^VIOLATION")
  key=$(echo "$out" | grep -o "key=[^ ]*" | head -1)
  echo "$id: $( [ $v -gt 0 ] && echo DETECTED || echo MISSED ) $key $(echo "$out" | grep -o 'check rc=[0-9]* in [0-9]* s')"
done
git -C $W checkout -q -- .
