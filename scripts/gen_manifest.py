#!/usr/bin/env python3
import json, os, sys
V = os.path.dirname(os.path.dirname(os.path.abspath(__file__)))
sys.path.insert(0, V)
from checks import CHECKS, PENDING
props = [json.loads(l) for l in open(f'{V}/properties.jsonl')]
checks, na = [], []
for p in props:
    pid = p['id']
    c = CHECKS.get(pid)
    if c and c.get('registered'):
        checks.append({
            "property_id": pid,
            "quick_cmd": f"/verif/check {pid} --tier quick",
            "thorough_cmd": f"/verif/check {pid} --tier thorough",
            "evidence_file": f"/verif/evidence/{pid}.json",
            "replay_cmd_template": f"/verif/check {pid} --replay {{path}}",
            "engine": c.get("engine", "pmc"),
            "level_claimed": {"category": "model_checking", "text": c["level_text"], "design_ref": c.get("design_ref", "DESIGN.md §7 " + pid)},
            "level_note": c["level_note"],
            "technique": c["technique"],
        })
    else:
        na.append({"property_id": pid, "reason": PENDING.get(pid, "check not built yet; the technique applies (see DESIGN.md)")})
m = {
    "version": 1,
    "setup_cmd": "/verif/setup.sh",
    "hooks": {"guard": "PIKA_VERIF_MC",
              "enable": "no source hooks are needed: scheduling points come from clang-14 atomics-only -fsanitize=thread instrumentation of /repo (build/pika-mc) plus libpthread interposition in libpmcrt.so; private members are reached with -fno-access-control in harness TUs only",
              "baseline_off_cmd": "ctest --test-dir /repo/_build -j8 --timeout 900",
              "source_commits": [], "add_only": True},
    "engines": [
        {"name": "pmc", "path": "rt/", "serves_properties": [c["property_id"] for c in checks],
         "kind_free_text": "stateless deviation-bounded (preemptions, early timeouts) exhaustive schedule exploration of the real code under a serialising token scheduler; data choices enumerate programs/histories (seqx)"},
    ],
    "checks": checks,
    "not_applicable": na,
    "notes": "See DESIGN.md. ./check <id> rebuilds libpika (instrumented) and the harnesses from /repo's working tree before exploring.",
}
json.dump(m, open(f'{V}/MANIFEST.json', 'w'), indent=1)
print(len(checks), "checks;", len(na), "not applicable")
