#!/bin/bash
# Configure + build the instrumented libpika (clang-14, atomics-only tsan instrumentation, asserts on).
# usage: build_pika.sh <builddir> [mpi]
set -e
B=${1:?builddir}; MPI=${2:-}
V=$(cd "$(dirname "$0")/.." && pwd)
SRC=${VERIF_PIKA_SRC:-/repo}
INSTR="-fsanitize=thread -mllvm -tsan-instrument-memory-accesses=0 -mllvm -tsan-instrument-func-entry-exit=0 -mllvm -tsan-instrument-memintrinsics=0 -Wno-unused-command-line-argument"
# configuration parity with /repo's g++ build: concurrentqueue.hpp enables its thread-exit recycling for g++ >= 4.8 but
# not for clang (which reports __GNUC__ 4.2); the header honours an outside definition
INSTR="$INSTR -DMOODYCAMEL_CPP11_THREAD_LOCAL_SUPPORTED"
# coverage audit build (scripts/coverage_audit.sh): clang source-based coverage on top of the same instrumentation
LDCOV=""
if [ -n "${VERIF_COV:-}" ]; then INSTR="$INSTR -fprofile-instr-generate -fcoverage-mapping"; mkdir -p "$V/build"; clang++-14 -c -fPIC -DPMC_COV_NAME=pmc_cov_write_lib "$V/rt/covreg.cpp" -o "$V/build/covreg_lib.o"; LDCOV=" -fprofile-instr-generate $V/build/covreg_lib.o"; fi
COMMON=(-G Ninja -S "$SRC" -B "$B" -DCMAKE_BUILD_TYPE=Debug -DCMAKE_CXX_COMPILER=clang++-14 -DCMAKE_C_COMPILER=clang-14
  -DPIKA_WITH_TESTS=OFF -DPIKA_WITH_EXAMPLES=OFF -DPIKA_WITH_MALLOC=system
  -Dfmt_DIR=/usr/lib/x86_64-linux-gnu/cmake/fmt -DPIKA_WITH_UNITY_BUILD=ON -DPIKA_WITH_VERIFY_LOCKS=OFF
  -DPIKA_WITH_PRECOMPILED_HEADERS=OFF)
[ -n "$MPI" ] && COMMON+=(-DPIKA_WITH_MPI=ON)
if [ ! -f "$B/.configured3" ]; then
  rm -rf "$B"; mkdir -p "$B"
  env -u CXXFLAGS cmake "${COMMON[@]}" "-DCMAKE_CXX_FLAGS_DEBUG=-O1 -g" > "$B/cmake1.log" 2>&1
  env -u CXXFLAGS cmake "${COMMON[@]}" "-DCMAKE_CXX_FLAGS_DEBUG=-O1 -g $INSTR" \
     "-DCMAKE_SHARED_LINKER_FLAGS=-Wl,--unresolved-symbols=ignore-all$LDCOV" > "$B/cmake2.log" 2>&1
  touch "$B/.configured3"
fi
ninja -C "$B" pika > "$B/ninja.log" 2>&1 || { tail -40 "$B/ninja.log"; exit 1; }
# MPI build: the MPI polling module is rebuilt with plain memory accesses instrumented as well (hooks
# __tsan_read*/__tsan_write* of libpmcrt: scheduling points where a spec's F-site table names them)
if [ -n "$MPI" ]; then
  OBJ=libs/pika/async_mpi/CMakeFiles/pika_async_mpi.dir/Unity/unity_0_cxx.cxx.o
  # ninja must keep regarding the object as its own (same mtime), so the mtime is restored after the
  # recompilation and the library is relinked by hand; .plain_instr remembers which object was replaced
  if [ -f "$B/$OBJ" ] && [ "$(stat -c %y "$B/$OBJ")" != "$(cat "$B/.plain_instr" 2>/dev/null)" ]; then
    CMD=$(ninja -C "$B" -t commands "$OBJ" | tail -1)
    CMD=${CMD//-tsan-instrument-memory-accesses=0/-tsan-instrument-memory-accesses=1}
    touch -r "$B/$OBJ" "$B/.plain_instr.ref"
    (cd "$B" && eval "$CMD") > "$B/plain_instr.log" 2>&1 || { tail -20 "$B/plain_instr.log"; exit 1; }
    touch -r "$B/.plain_instr.ref" "$B/$OBJ"
    LINK=$(ninja -C "$B" -t commands pika | grep -- "-shared" | tail -1)
    (cd "$B" && eval "$LINK") >> "$B/plain_instr.log" 2>&1 || { tail -20 "$B/plain_instr.log"; exit 1; }
    stat -c %y "$B/$OBJ" > "$B/.plain_instr"
  fi
fi
# F-site table of the library (regenerated whenever the library changed)
LIB=$(readlink -f "$B"/lib/libpika*.so | head -1)
if [ ! -f "$LIB.sites" ] || [ "$LIB" -nt "$LIB.sites" ]; then "$V/scripts/mksites.py" "$LIB" "$LIB.sites"; fi
